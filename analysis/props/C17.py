"""C17 — run-time failures are MScript errors with an exact call trace (structural clauses).

 (a) no data-dependent panic on an interpreter path: inventory of arithmetic / indexing / std-panicking calls /
     narrowing casts on program values in the handlers, built-ins and operator impls (props/_panics.py);
 (b) the trace is intact at the point of failure: Function::run pushes its frame before the loop, pops it on every
     Ok return and on no failure path; the native-code frame of a built-in is pushed before it runs and is not popped
     on failure; Program::execute flushes stdout before the banner and returns Err after it;
 (c) a failed assert names file:line:col: the parser-built position string is the instruction argument and the
     handler formats it into the error.
"""
import mir
import rules
from mir import op_local, op_const, op_place
from core import AnchorMissing

try:
    from props import _panics
except ImportError:
    _panics = None


SLICE_ACCESS = ("core::slice::<impl [T]>::first", "core::slice::<impl [T]>::get", "core::ops::index::Index::index", "core::option::Option::unwrap",
                "core::option::Option::expect", "core::ops::try_trait::Try::branch")


def need(F, path):
    f = F.fn(path)
    if f is None:
        raise AnchorMissing(path)
    return f


def failure_edges(fn):
    """Blocks where a failure path starts: the Break target of every `?`, and every block that builds `_0 = Err(..)`."""
    starts = set()
    for c in fn.calls_to(rules.TRY_BRANCH):
        sw = rules.find_discr_switch(fn, c.target, c.dst["l"]) if c.target is not None else None
        if sw is not None:
            brk = dict(fn.term(sw)["targets"]).get("1")
            if brk is not None:
                starts.add(brk)
    for bi, si, dst, rv, s in fn.assigns():
        if dst["l"] == 0 and not dst.get("p") and "agg" in rv and rv["agg"].get("v") == "Err":
            starts.add(bi)
    return starts


def trace_lists_every_frame(F, rep, rule="C17.trace-complete"):
    """"... lists exactly the functions and methods active": the printer of the call stack (<Stack as Display>::fmt) writes the innermost frame and
    then one line per remaining frame - one walk over one slice of the frame vector.  A printer that cuts the vector into pieces (split_at, take,
    skip, windows, chunks: "the 24 innermost, ... N more ..., the 24 outermost") leaves active functions out of a deep trace."""
    fm = [g for g in F.crates["bytecode"].fns if "stack::Stack as core::fmt::Display" in g.path and g.kind != "Closure"]
    if len(fm) != 1:
        raise AnchorMissing("<Stack as Display>::fmt")
    g = fm[0]
    CUTS = ("::split_at", "::split_at_mut", "::split_first", "::split_last", "::take", "::skip", "::step_by", "::take_while", "::skip_while", "::windows",
            "::chunks", "::truncate", "::drain", "::first", "::nth", "::filter", "::dedup", "::dedup_by_key", "::min", "::max")
    bodies = [g] + F.closures_of(g)
    cuts = sorted({mir.short(c.callee()) for b in bodies for c in b.calls() if mir.strip_generics(c.callee()).endswith(CUTS)})
    walks = [c for c in g.calls() if mir.short(c.callee()).endswith(("]::iter", "IntoIterator>::into_iter"))]
    nexts = {c.bb for c in g.calls() if c.matches("core::iter::traits::iterator::Iterator::next")}
    st = "ok" if walks and len(nexts) == 1 and not cuts else "violated"
    rep.ob(rule, "the trace printer walks the frames once, whole", st,
           "" if st == "ok" else ("%d frame loops, cutting calls %s: frames of a deep call stack are left out of the trace (a failure below ~50 nested calls "
                                  "prints `... N more ...` for the middle of the stack)" % (len(nexts), cuts)), g.span, fn=g.path, key=rule)


def failure_reaches_the_exit_status(F, rep, rule="C17.exit-status"):
    """"... and exits with a failure status": the interpreter thread hands `main` the program's result (`Result<(), anyhow::Error>`, alone or inside
    the payload it returns); main turns an Err into its own Err - and so into a non-zero exit - with `?`.  After a join of such a thread, every path to
    main's Ok return passes through a `?` on a value of that type that comes out of the join: a path that skips it (`if !profiled { status? }`) prints
    the trace and exits 0."""
    m = F.fn("mscript::main")
    if m is None:
        raise AnchorMissing("mscript::main")
    STATUS = "core::result::Result<(), anyhow::Error>"
    okr = set(rules.ok_return_blocks(m))
    joins = [c for c in m.calls() if mir.short(c.callee()).endswith("JoinHandle::join") and c.args and STATUS in m.locals[op_local(c.args[0])]]
    rep.floor(rule + " joins of an interpreter thread in main", len(joins), 2)
    for i, j in enumerate(joins):
        der = m.derived([j.dst["l"]], through_call=lambda c, idx: True)
        tries = [c for c in m.calls() if c.matches(rules.TRY_BRANCH) and c.args and op_local(c.args[0]) in der and m.locals[op_local(c.args[0])].strip() == STATUS]
        blocks = {c.bb for c in tries}
        leak = sorted(m.reachable(j.target, removed_blocks=blocks) & okr) if j.target is not None else [-1]
        st = "ok" if tries and not leak else "violated"
        rep.ob(rule, "main (join #%d): the program's result is propagated with `?` on every path to a successful exit" % i, st,
               "" if st == "ok" else ("%d `?` on the thread's Result<(), Error>; main's Ok return is reachable from the join without one: a failed program - trace "
                                      "printed - ends with exit status 0" % len(tries)), j.span, fn=m.path, key="%s|join#%d" % (rule, i))


def run(ctx, rep):
    F = ctx.facts("default", ["bytecode", "compiler", "mscript-bin"])
    rep.explain("C17: dominator / no-call-after-failure rules on Function::run, the `call` handler and Program::execute; pass-through of "
                "the assert position string; inventory of data-dependent panic sites on interpreter paths.")
    rep.assume("the rendered text of the trace is not decided; frames are identified by the push/pop calls")

    failure_reaches_the_exit_status(F, rep)
    trace_lists_every_frame(F, rep)
    # a program number that is narrowed or loses its sign on the way into a std operation (`count as usize` for str::repeat) turns an ordinary
    # "negative count" failure into a Rust panic (capacity overflow: exit 101, no banner, no trace): C05's inventory of casts in the operator impls
    from props import C05 as _c05
    from core import Report as _Report5
    tmp5 = _Report5("C05", rep.tier)
    _c05.run(ctx, tmp5)
    k5 = 0
    for o in tmp5.obligations:
        if o["key"].startswith("C05.widening"):
            k5 += 1
            rep.ob("C17.narrowing", o["instance"], o["status"], o["detail"], o["where"], key=o["key"].replace("C05.widening", "C17.narrowing", 1), fn=o.get("fn"))
    rep.floor("C17.narrowing casts in the operator implementations", k5, 5)
    # ---- (b) Function::run ------------------------------------------------------------------------------------
    r = need(F, "bytecode::function::Function::run")
    ext = r.calls_to("bytecode::stack::Stack::extend")
    pops = r.calls_to(("bytecode::stack::Stack::pop", "bytecode::stack::Stack::pop_until_function"))
    handlers = [c for c in r.calls() if c.callee().startswith("bytecode::instruction::implementations::")]
    rep.floor("C17.instruction handlers dispatched in Function::run", len(handlers), 40)
    ok = bool(ext) and all(rules.call_dominates(r, ext, c.bb) for c in handlers)
    rep.ob("C17.trace", "Function::run pushes the function's frame before any instruction runs", "ok" if ok else "violated", "", r.span, fn=r.path,
           key="C17.trace|run|push-first")
    oks = rules.ok_return_blocks(r)
    okp = bool(pops) and bool(oks) and all(rules.call_dominates(r, pops, b) for b in oks)
    rep.ob("C17.trace", "Function::run pops its frame(s) on every Ok return", "ok" if okp else "violated", "", r.span, fn=r.path, key="C17.trace|run|pop-on-ok")
    # the caller's frame stays on the stack while a callee runs: once Stack::pop / pop_until_function has been executed, Function::run
    # neither runs another instruction handler nor hands a jump request to the callback (it can only return)
    after_pop = set()
    for c in pops:
        if c.target is not None:
            after_pop |= {b for b in r.reachable(c.target) if not r.blocks[b].get("cleanup")}
    cb_calls = [c for c in r.calls() if ("FnMut::call_mut" in c.callee() or "Fn::call" in c.callee() or "FnOnce::call_once" in c.callee())
                and c.args and op_local(c.args[0]) is not None and ("impl Fn" in r.locals[op_local(c.args[0])] or r.local_name(op_local(c.args[0])) == "jump_callback"
                                                                     or op_local(c.args[0]) <= r.argc)]
    late = [c for c in handlers + cb_calls if c.bb in after_pop]
    rep.floor("C17.jump callback calls in Function::run", len(cb_calls), 1)
    rep.ob("C17.trace", "a function's frame is on the stack while the functions it calls run (no handler and no call-out after the frame was popped)",
           "violated" if late else "ok", "; ".join("%s at %s runs after the frame was popped" % (mir.short(c.callee()), c.span) for c in late[:3]), r.span, fn=r.path,
           key="C17.trace|run|frame-held-during-call")
    fe = failure_edges(r)
    rep.floor("C17.failure edges in Function::run", len(fe), 5)
    frame_pops = ("bytecode::stack::Stack::pop", "bytecode::stack::Stack::pop_until_function", "bytecode::context::Ctx::pop_frame")
    g = F.call_graph()
    pop_paths = {f.path for f in (F.fn(x) for x in frame_pops) if f is not None}
    if len(pop_paths) < 3:
        raise AnchorMissing("Stack::pop / Stack::pop_until_function / Ctx::pop_frame")

    def pops_frame(c):
        if c.matches(frame_pops):
            return True
        f2 = F.fn(c.callee())
        return f2 is not None and f2.path.startswith("bytecode::") and bool(F.reach([f2.path]) & pop_paths)
    bad = rules.blocks_calling(r, pops_frame, fe)
    # error-path closures (map_err / or_else / inspect_err / unwrap_or_else / with_context) of run must not unwind frames either
    ERR_COMB = ("core::result::Result::map_err", "core::result::Result::or_else", "core::result::Result::inspect_err", "core::result::Result::unwrap_or_else",
                "anyhow::Context::with_context", "core::result::Result::map_or_else")
    n_cl = 0
    for c in r.calls():
        if c.matches(ERR_COMB):
            for a in c.args[1:]:
                cd = rules.closure_def_of_arg(r, a)
                g2 = F.fn(cd) if cd else None
                if g2 is None:
                    continue
                n_cl += 1
                if any(pops_frame(c2) for c2 in g2.calls()):
                    bad.append(c)
    rep.ob("C17.trace", "Function::run: no frame is popped after a failure (the trace lists every active function)",
           "violated" if bad else "ok", "after a failure edge: %s" % [(mir.short(b.callee()), b.span) for b in bad[:3]], r.span, fn=r.path,
           key="C17.trace|run|no-pop-after-failure")
    # the frame label is the function's qualified name
    for c in ext:
        qn = [x for x in r.calls_to("bytecode::function::Function::get_qualified_name") if rules.call_dominates(r, [x], c.bb)]
        der = r.derived([x.dst["l"] for x in qn])
        okl = op_local(c.args[1]) in der
        rep.ob("C17.trace", "the frame is labelled with the function's qualified name", "ok" if okl else "violated",
               "label derives from get_qualified_name(): %s" % okl, c.span, fn=r.path, key="C17.trace|run|label")

    # ---- (b) built-in calls --------------------------------------------------------------------------------------
    cl = need(F, "bytecode::instruction::implementations::call")
    adds = cl.calls_to("bytecode::context::Ctx::add_frame")
    runs = cl.calls_to("bytecode::function::BuiltInFunction::run")
    rep.floor("C17.BuiltInFunction::run call sites in `call`", len(runs), 1)
    okn = bool(adds) and all(rules.call_dominates(cl, adds, c.bb) for c in runs)
    rep.ob("C17.trace", "call: the <native code> frame is pushed before the built-in runs", "ok" if okn else "violated", "", cl.span, fn=cl.path,
           key="C17.trace|call|native-frame-pushed")
    # failures of the built-in: the Break edge of the `?` consuming its (context-wrapped) result
    fe = set()
    for c in runs:
        der = cl.derived([c.dst["l"]], through_call=lambda cc, idx: True if cc.matches(("anyhow::Context::context", "anyhow::Context::with_context")) else None)
        for t in cl.calls_to(rules.TRY_BRANCH):
            if op_local(t.args[0]) in der:
                sw = rules.find_discr_switch(cl, t.target, t.dst["l"])
                if sw is not None:
                    fe.add(dict(cl.term(sw)["targets"]).get("1"))
    if not fe:
        bad = ["no `?` on the built-in's result"]
    else:
        # pop_frame is reachable from the built-in's return only across the Continue edge of that `?`
        cont = set()
        for t in cl.calls_to(rules.TRY_BRANCH):
            sw = rules.find_discr_switch(cl, t.target, t.dst["l"])
            if sw is not None and dict(cl.term(sw)["targets"]).get("1") in fe:
                cont.add((sw, dict(cl.term(sw)["targets"]).get("0")))
        early = set()
        for c in runs:
            early |= cl.reachable(c.target, removed_edges=cont) if c.target is not None else set()
        bad = [(mir.short(c.callee()), c.span) for c in cl.calls() if c.bb in early and c.matches("bytecode::context::Ctx::pop_frame")]
    rep.ob("C17.trace", "call: the <native code> frame is still on the stack when a built-in fails (it is popped only after the `?`)", "violated" if bad else "ok",
           str(bad[:2]), cl.span, fn=cl.path, key="C17.trace|call|native-frame-kept-on-failure")
    pfs = cl.calls_to("bytecode::context::Ctx::pop_frame")
    okpop = bool(pfs) and all(rules.call_dominates(cl, runs, p.bb) for p in pfs)
    # on success the native frame is popped before returning Ok from that arm
    after = set()
    for c in runs:
        after |= cl.reachable(c.target) if c.target is not None else set()
    oks = [b for b in rules.ok_return_blocks(cl) if b in after and not any(b in cl.reachable(f) for f in fe if f is not None)]
    okbal = bool(oks) and all(rules.call_dominates(cl, pfs, b) for b in oks)
    rep.ob("C17.trace", "call: the <native code> frame is popped when the built-in succeeds (frames do not accumulate)", "ok" if okpop and okbal else "violated",
           "", cl.span, fn=cl.path, key="C17.trace|call|native-frame-popped-on-success")

    # ---- (b) Program::execute -----------------------------------------------------------------------------------------
    ex = need(F, "bytecode::interpreter::Program::execute")
    flushes = [c for c in ex.calls() if c.matches("std::io::Write::flush")]
    banners = [c for c in ex.calls() if c.matches("std::io::stdio::_eprint")]
    rep.floor("C17.error banners in Program::execute", len(banners), 1)
    for b in banners:
        okf = bool(flushes) and rules.call_dominates(ex, flushes, b.bb)
        rep.ob("C17.flush", "Program::execute flushes stdout before printing the failure banner", "ok" if okf else "violated", "", b.span, fn=ex.path,
               key="C17.flush|execute|#%d" % banners.index(b))
        # after the banner only Err returns
        reach = ex.reachable(b.target) if b.target is not None else set()
        okret = [x for x in rules.ok_return_blocks(ex) if x in reach]
        errs = [bi for bi, si, dst, rv, s in ex.assigns() if bi in reach and dst["l"] == 0 and "agg" in rv and rv["agg"].get("v") == "Err"]
        rep.ob("C17.exit-status", "Program::execute returns Err after reporting a failure", "ok" if errs and not okret else "violated", "", b.span, fn=ex.path,
               key="C17.exit-status|execute|#%d" % banners.index(b))
    # the trace text is the call stack at the time of failure: with_context(|| stack.to_string()) on the entrypoint run
    rf = ex.calls_to("bytecode::file::MScriptFile::run_function")
    wc = [c for c in ex.calls() if c.matches("anyhow::Context::with_context") and rf and op_local(c.args[0]) == rf[0].dst["l"]]
    okctx = False
    if wc:
        cd = rules.closure_def_of_arg(ex, wc[0].args[1])
        g = F.fn(cd) if cd else None
        okctx = g is not None and bool(g.calls_to("alloc::string::ToString::to_string")) and bool(g.calls_to("core::cell::RefCell::borrow"))
    rep.ob("C17.trace", "the error carries the call stack as rendered at the point of failure (with_context(|| stack.to_string()))",
           "ok" if okctx else "violated", "", ex.span, fn=ex.path, key="C17.trace|execute|stack-context")

    # ---- (b) one call stack: every nested call runs on the stack execute() will render --------------------------------------------
    news = F.callers_of("bytecode::stack::Stack::new")
    extra = [(mir.short(f.path), c.span) for f, c in news if f.path != "bytecode::interpreter::Program::execute"]
    rep.ob("C17.trace", "the program has one call stack: Stack::new is called in Program::execute only", "violated" if extra or not news else "ok",
           "other creators: %s" % extra if extra else "", ex.span if False else None, key="C17.trace|one-stack|creators")
    n_jr = 0
    for f in F.crates["bytecode"].fns:
        if f.path.startswith("bytecode::instruction::implementations::") is False:
            continue
        for bi, si, dst, rv, s_ in f.assigns():
            if "agg" in rv and str(rv["agg"].get("adt", "")).endswith("instruction::JumpRequest"):
                a_ = F.adt(rv["agg"]["adt"])
                names = [x["name"] for x in a_["variants"][0]["fields"]]
                if "stack" not in names:
                    raise AnchorMissing("JumpRequest.stack")
                l = op_local(rv["ops"][names.index("stack")])
                oc = rules.origin_calls(f, l) if l is not None else []
                okst = bool(oc) and all(c.matches("bytecode::context::Ctx::rced_call_stack") for c in oc)
                n_jr += 1
                rep.ob("C17.trace", "%s: the callee runs on the caller's call stack (JumpRequest.stack is Ctx::rced_call_stack())" % mir.short(f.path),
                       "ok" if okst else "violated", "stack comes from %s" % [mir.short(c.callee()) for c in oc], s_.get("us") or s_.get("sp"), fn=f.path,
                       key="C17.trace|one-stack|%s#%d" % (mir.short(f.path), n_jr))
    rep.floor("C17.JumpRequest constructions in instruction handlers", n_jr, 5)

    # ---- (b) the rendering order: innermost first, every frame ----------------------------------------------------------------
    disp = [f for f in F.crates["bytecode"].fns if f.path == "<bytecode::stack::Stack as core::fmt::Display>::fmt"]
    if len(disp) != 1:
        raise AnchorMissing("impl Display for Stack")
    disp = disp[0]
    lasts = disp.calls_to(("core::slice::<impl [T]>::last", "alloc::vec::Vec::last"))
    revs = [c for c in disp.calls() if c.matches("core::iter::traits::iterator::Iterator::rev")]
    thinning = [c for c in disp.calls() if c.matches(("core::iter::traits::iterator::Iterator::skip", "core::iter::traits::iterator::Iterator::take",
                                                       "core::iter::traits::iterator::Iterator::filter", "core::iter::traits::iterator::Iterator::step_by",
                                                       "core::iter::traits::iterator::Iterator::skip_while", "core::iter::traits::iterator::Iterator::take_while"))]
    nexts = [c for c in disp.calls() if c.matches("core::iter::traits::iterator::Iterator::next")]
    # the loop iterates the reversed iterator
    loop_rev = False
    for nx in nexts:
        oc = rules.origin_calls(disp, op_local(nx.args[0]), transparent=rules.TRANSPARENT | {"core::iter::traits::collect::IntoIterator::into_iter"})
        if any(x.matches("core::iter::traits::iterator::Iterator::rev") for x in oc):
            loop_rev = True
    # the remaining frames are self.0[..size-1]: the range end derives from size() - 1
    ranged = False
    for bi, si, dst, rv, s in disp.assigns():
        if "agg" in rv and "RangeTo" in str(rv["agg"].get("adt")):
            l = op_local(rv["ops"][0])
            for d in rules.defs_of(disp, l) if l is not None else []:
                if d[0] == "assign" and "bin" in d[4] and d[4]["bin"].startswith("Sub") and (op_const(d[4]["r"]) or {}).get("int") == "1":
                    ranged = True
                elif d[0] == "assign" and "use" in d[4]:
                    for d2 in rules.defs_of(disp, op_local(d[4]["use"])) if op_local(d[4]["use"]) is not None else []:
                        if d2[0] == "assign" and "bin" in d2[4] and d2[4]["bin"].startswith("Sub") and (op_const(d2[4]["r"]) or {}).get("int") == "1":
                            ranged = True
    labels = 0
    for bi, si, dst, rv, s in disp.assigns():
        pl = rv.get("ref") or (op_place(rv["use"]) if "use" in rv else None)
        if pl and any(e[0] == "field" and len(e) > 2 and e[2] == "label" for e in pl.get("p", [])):
            labels += 1
    okd = bool(lasts) and loop_rev and not thinning and ranged and labels >= 2
    rep.ob("C17.trace", "Stack's Display prints the innermost frame first, then every other frame from the top of the stack down",
           "ok" if okd else "violated", "last()=%s loop over rev()=%s rest is [..size-1]=%s no skip/take/filter=%s label printed at %d sites" % (
               bool(lasts), loop_rev, ranged, not thinning, labels), disp.span, fn=disp.path, key="C17.trace|display|innermost-first")

    # ---- (c) assert position ---------------------------------------------------------------------------------------------
    ac = [f for f in F.find("compiler::ast::Compile::compile") if "assertion::Assertion" in f.path]
    if len(ac) != 1:
        raise AnchorMissing("impl Compile for Assertion")
    ac = ac[0]
    import opcodes
    lits = [(f, nm, sp, c) for f, nm, sp, c in opcodes.instruction_literals(F) if f is ac and nm == "assert"]
    okarg = False
    detail = "no instruction!(assert ..) in Assertion::compile"
    if lits:
        # the argument converted with to_string is self.span
        c0 = lits[0][3]
        tos = [c for c in ac.calls() if ("ToString" in c.callee() or "to_string" in c.callee()) and c.bb in ac.reachable(c0.target)]
        for t in tos:
            tp = rules.trace_paths(ac, op_local(t.args[0]), transparent=rules.TRANSPARENT)
            if tp == {(("arg", 1), ("span",))}:
                okarg = True
        detail = "the argument of the assert instruction derives from self.span: %s" % okarg
    rep.ob("C17.assert-position", "Assertion::compile passes the parser-built position string as the instruction argument", "ok" if okarg else "violated",
           detail, ac.span, fn=ac.path, key="C17.assert-position|compile")
    pa = need(F, "compiler::parser::Parser::assertion")
    lits = [x for x in rules.string_literals(pa) if x[0] == "fmt"]
    okfmt = any(p == ["{}", ":", "{}", ":", "{}"] for _, p, _ in lits)
    lc = pa.calls_to("pest::position::Position::line_col")
    src = pa.calls_to("compiler::parser::AssocFileData::get_source_file_name")
    # the position is the *start* of the *assert statement* (the node given to Parser::assertion)
    okpos = False
    for c in lc:
        oc = rules.origin_calls(pa, op_local(c.args[0]), transparent=rules.TRANSPARENT)
        for sp in oc:
            if sp.matches("pest::span::Span::start_pos"):
                oc2 = rules.origin_calls(pa, op_local(sp.args[0]), transparent=rules.TRANSPARENT)
                for a in oc2:
                    if a.matches("pest_consume::node::Node::as_span"):
                        tp = rules.trace_paths(pa, op_local(a.args[0]), transparent=rules.TRANSPARENT)
                        if any(o == ("arg", 1) for o, _ in tp):
                            okpos = True
    # the `{}:{}:{}` template is filled, in this order, with get_source_file_name(), line_col().0, line_col().1
    okorder = False
    fmt_call = None
    for c, pieces, args in rules.fmt_calls(pa):
        if pieces != ["{}", ":", "{}", ":", "{}"] or len(args) != 3 or any(x is None for x in args):
            continue
        fmt_call = c
        tps = [rules.trace_paths(pa, x[1], transparent=rules.TRANSPARENT) for x in args]
        lcb = {c2.bb for c2 in lc}
        srcb = {c2.bb for c2 in src}
        okorder = (all(o[0] == "call" and o[1] in srcb for o, _ in tps[0]) and bool(tps[0])
                   and tps[1] and all(o[0] == "call" and o[1] in lcb and f == ("0",) for o, f in tps[1])
                   and tps[2] and all(o[0] == "call" and o[1] in lcb and f == ("1",) for o, f in tps[2]))
    # the Assertion is built with that string as `span`
    okfield = False
    for bi, si, dst, rv, st in pa.assigns():
        if "agg" in rv and rv["agg"].get("adt", "").endswith("assertion::Assertion") and fmt_call is not None:
            a_ = F.adt(rv["agg"]["adt"])
            names = [f["name"] for f in a_["variants"][0]["fields"]] if a_ else []
            if "span" in names:
                ol = op_local(rv["ops"][names.index("span")])
                fm = [c for c in pa.calls() if c.matches(("alloc::fmt::format",)) and op_local(c.args[0]) == fmt_call.dst["l"]]
                der = pa.derived([c.dst["l"] for c in fm], through_call=lambda c, idx: True if c.matches(("core::hint::must_use",)) else None)
                okfield = ol in der
    rep.ob("C17.assert-position", "Parser::assertion builds `file:line:col` from the source file name and the start position of the assert statement",
           "ok" if okfmt and okpos and okorder and okfield and lc and src else "violated",
           "template ok=%s start-of-statement=%s argument order file,line,col=%s stored as Assertion.span=%s" % (okfmt, okpos, okorder, okfield),
           pa.span, fn=pa.path, key="C17.assert-position|parser")
    ah = need(F, "bytecode::instruction::implementations::assert")
    lits = [(p, w) for k, p, w in rules.string_literals(ah) if k == "fmt" and "{}" in p]
    # the Err built on the failing edge of the truth test formats args[0]
    okh = False
    detail = "no message template with an argument"
    for c in ah.calls():
        if c.matches("core::fmt::rt::Argument::new_display") or c.matches("core::fmt::rt::Argument::new_debug"):
            tp = rules.trace_paths(ah, op_local(c.args[0]), transparent=tuple(rules.TRANSPARENT) + SLICE_ACCESS)
            detail = "formatted argument derives from %s" % sorted(tp, key=str)
            if any(o == ("arg", 2) for o, _ in tp):
                okh = True
    # which edge: the Ok return is reachable only when equals(..true..) held
    eq = ah.calls_to("bytecode::variables::primitive::Primitive::equals")
    guarded = False
    if eq:
        der = ah.derived([c.dst["l"] for c in eq], through_call=lambda c, idx: True if c.matches(rules.TRY_BRANCH) else None)
        sws = [x for x in rules.bool_switches(ah, der) if x[3] is not None]
        removed = {(bb, t_t if pol else f_t) for bb, t_t, f_t, pol in sws}
        reach = ah.reachable(0, removed_edges=removed)
        guarded = bool(sws) and not [b for b in rules.ok_return_blocks(ah) if b in reach]
    rep.ob("C17.assert-position", "the assert handler fails exactly when the value is not true and formats its position argument into the message",
           "ok" if okh and guarded and lits else "violated", detail + "; Ok only on the true edge: %s" % guarded, ah.span, fn=ah.path,
           key="C17.assert-position|handler")

    if _panics is not None:
        _panics.run_c17(F, rep, ctx)

    borrow_discipline(F, rep)
    recursion_is_bounded(F, rep)


INTERPRETER_CELLS = (
    ("bytecode::stack::Stack", "the call stack"),
    ("bytecode::stack::TupleWithGcOpt", "a variable cell"),
    ("bytecode::stack::VariableMapping", "a frame's / module's variable table"),
    ("alloc::vec::Vec<bytecode::variables::primitive::Primitive>", "a list"),
)


def borrow_discipline(F, rep):
    """A RefCell / GcCell borrowed twice in conflicting ways aborts the interpreter with a Rust panic (`already borrowed`), not with an MScript
    error: for the interpreter's cells no conflicting borrow is taken while a guard may be alive (props/_borrows.py), unless the code has
    established that the two cells are different objects."""
    from props import _borrows
    cells = list(INTERPRETER_CELLS)
    C = _borrows.Cells(F, "bytecode")
    for v in list(C.direct_mut.values()):
        for cell in v:
            if cell.startswith("std::collections::hash::map::HashMap<bytecode::variables::primitive::Primitive"):
                cells.append((cell, "a map"))
    seen = set()
    total = 0
    for cell, what in cells:
        if cell in seen:
            continue
        seen.add(cell)
        bad, ok_, st = _borrows.judge(F, cell, "bytecode")
        total += st["guards_born"]
        for f, l, prod, c, why in bad:
            rep.ob("C17.borrow", "%s borrows %s again (%s) while the guard `%s` taken at %s is alive" % (mir.short(f.path), what, mir.short(c.callee()), f.local_name(l), prod.span),
                   "violated", "if both denote the same object the interpreter aborts with a Rust panic (`already borrowed`) instead of an MScript error", c.span, fn=f.path,
                   key="C17.borrow|%s|%s|%s->%s" % (what, mir.short(f.path), mir.short(prod.callee()), mir.short(c.callee())))
        for f, l, prod, c, why in ok_:
            rep.ob("C17.borrow", "%s borrows %s twice" % (mir.short(f.path), what), "ok", why, c.span, fn=f.path,
                   key="C17.borrow|%s|%s|%s->%s|discharged" % (what, mir.short(f.path), mir.short(prod.callee()), mir.short(c.callee())))
        if not bad:
            rep.ob("C17.borrow", "no conflicting borrow of %s while a guard is alive (%d guards, %d functions that may borrow it mutably)" % (what, st["guards_born"], st["mutators"]),
                   "ok", "", None, key="C17.borrow|%s|summary" % what)
    rep.floor("C17.borrow guards tracked in crate bytecode", total, 80)


def recursion_is_bounded(F, rep, rule="C17.depth"):
    """A call in the interpreted program is a recursive call in the interpreter (Function::run -> the jump-request machinery -> Function::run): the
    native stack grows with the program's call depth.  "Stack exhaustion" is one of the failures the language defines, so it has to arrive as a
    run-time error with a trace - which needs a bound that is checked *before* the native stack runs out: a comparison of the call depth
    (frames of the call stack, a counter) with a limit inside the recursive cycle whose failing edge returns an Err, or a stack that is grown on
    demand (stacker).  With neither, a recursion a few dozen calls deep (debug build, default 4 MB thread) kills the process with SIGABRT."""
    import re
    fns = {f.path: f for f in F.crates["bytecode"].fns}
    g0 = F.call_graph()
    run = "bytecode::function::Function::run"
    if run not in fns:
        raise AnchorMissing(run)

    def succ(v):
        out = set()
        for w in g0.get(v, ()):
            for x in (w, getattr(F.fn(w), "path", None)):
                if x in fns:
                    out.add(x)
        f = fns.get(v)
        if f is not None:
            for g in F.closures_of(f):
                out.add(g.path)
        return out
    # the functions on a cycle through Function::run
    fwd, todo = {run}, [run]
    while todo:
        v = todo.pop()
        for w in succ(v):
            if w not in fwd:
                fwd.add(w)
                todo.append(w)
    cyc = {v for v in fwd if run in succ(v) or v == run}
    changed = True
    while changed:
        changed = False
        for v in fwd:
            if v not in cyc and succ(v) & cyc:
                # v reaches the cycle; it is on it only if run reaches v (true: v in fwd) and v reaches run
                cyc.add(v)
                changed = True
    recursive = any(run in succ(v) for v in fwd)
    if not recursive:
        # the cycle closes through the callback Function::run is handed (`jump_callback: impl Fn(&JumpRequest)`): a closure somewhere in the crate
        # that reaches Function::run again, and a call of a Fn parameter inside Function::run
        calls_param = any(re.search(r"ops::function::Fn(Mut|Once)?::call", c.callee() or "") for c in fns[run].calls())

        def reach(s0):
            seen, td = {s0}, [s0]
            while td:
                v = td.pop()
                for w in succ(v):
                    if w not in seen:
                        seen.add(w)
                        td.append(w)
            return seen
        back = [v for v, f_ in fns.items() if f_.kind == "Closure" and run in reach(v)]
        if calls_param and back:
            recursive = True
            cyc |= set(back) | {run}
            for v in back:
                cyc |= {w for w in reach(v) if run in reach(w)}
    guards = []
    for v in sorted(cyc):
        f = fns[v]
        for c in f.calls():
            cal = mir.strip_generics(c.callee() or "")
            if re.search(r"stacker::|Ctx::frames_count$|Stack::size$|Stack::len$|Stack::depth$", cal) and c.dst:
                der = f.derived([c.dst["l"]])
                for bi, si, dst, rv, s_ in f.assigns():
                    if "bin" in rv and rv["bin"] in ("Gt", "Ge", "Lt", "Le") and (op_local(rv["l"]) in der or op_local(rv["r"]) in der):
                        guards.append((v, c))
            if "stacker::" in cal:
                guards.append((v, c))
    rep.ob(rule, "the interpreter's recursion (one native frame chain per MScript call) is bounded by a checked call depth or a stack grown on demand",
           "ok" if (guards or not recursive) else "violated",
           "" if (guards or not recursive) else ("Function::run is on a call-graph cycle of %d functions and nothing on it compares the call depth with a limit: deep recursion ends in a "
                                                 "native stack overflow (abort, no MScript error, no trace)" % len(cyc)), fns[run].span, fn=run, key=rule + "|interpreter-recursion")
