"""C16 — the compiler is total: the grammar clause (R-GRAM).

Decides exactly one class of "believed impossible" panic in the front end: the assumptions the AST builders make about the *shape of the
parse tree* -- which rule a node has, whether another child exists, whether there is exactly one child.  Each is implied, or not, by
`grammar.pest`; the oracle is the grammar itself (dumped by the same pest_meta that generates the parser) turned into child-sequence
automata (analysis/gram.py), against which a flow-sensitive, inter-procedural typestate analysis of the builders' MIR is run
(analysis/gramflow.py).

  O1  a `match node.as_rule()` whose fall-through arm can only panic (unreachable!/unimplemented!/todo!) has an arm for every rule the
      grammar can put at that position;
  O2  `next()/last()` unwrapped or expect-ed: the grammar does not allow the child sequence to end there;
  O3  `single().unwrap()`: the grammar yields exactly one child there;
  O4  `assert_eq!(node.as_rule(), Rule::X)`: every node reaching the assertion has rule X.

Not decided (counted in the evidence, never alarmed): panics that rest on typing / scoping invariants (`ident.ty().unwrap()`, drop-order
assertions of ScopeHandle / TemporaryRegister), hand-assembled Option<Node> values, stack depth, termination.
"""
import os
import re
import rules
from mir import op_local, op_const

import gram
import gramflow
import mir
from core import AnchorMissing


def run(ctx, rep):
    F = ctx.facts("default", ["compiler"])
    rep.explain("C16 (grammar clause): grammar.pest is turned into child-sequence automata; a typestate analysis over the MIR of every function of crate "
                "compiler that handles parse-tree nodes (rule sets per Node, automaton states per Nodes iterator, refined by matches on as_rule(), "
                "== comparisons, Option tests and boolean flags; inter-procedural over parameters, returns, closures and the Pratt-parser callback "
                "partition) decides whether each builder assumption about the tree shape is implied by the grammar.")
    rep.assume("PEG ordered choice is treated as unordered and repetition as unbounded: every alternative of a choice is assumed producible")
    rep.assume("only shape assumptions are decided; unwrap/expect sites resting on typing or scoping invariants are counted, not judged")
    gpath = os.path.join(F.dir, "grammar.json") if hasattr(F, "dir") else None
    if gpath is None or not os.path.exists(gpath):
        import extract
        gpath = os.path.join(os.environ.get("VERIF_FACTS_DIR") or extract.ensure("default"), "grammar.json")
    if not os.path.exists(gpath):
        raise AnchorMissing("grammar.json (engine/gramdump)")
    G = gram.Grammar(gpath)
    fl = gramflow.Flow(F, G)
    fl.run([])
    rep.floor("C16.grammar rules producing tokens", len([r for r in G.token_rules() if not r.startswith("<root")]), 90)
    rep.floor("C16.functions handling parse-tree nodes analysed", len(fl.analysed), 70)
    rep.floor("C16.Pratt parser operator tables read", sum(len(v["infix"]) + len(v["prefix"]) + len(v["postfix"]) for v in fl.pratt_ops.values()), 20)
    counts = {"O1": 0, "O2": 0, "O3": 0, "O4": 0}
    text = {"O1": "every rule the grammar can put here has an arm (the fall-through arm panics)",
            "O2": "the grammar guarantees another child here (next()/last() is unwrapped)",
            "O3": "the grammar guarantees exactly one child here (single() is unwrapped)",
            "O4": "the node always has the asserted rule (assert_eq!(node.as_rule(), Rule::X))"}
    per_fn_idx = {}
    for key in sorted(fl.obligations, key=lambda k: (k[0], k[1], k[2])):
        o = fl.obligations[key]
        counts[o["kind"]] += 1
        fshort = mir.short(re.sub(r"::\{closure#\d+\}", "::{closure}", o["fn"]))
        n = per_fn_idx.setdefault((fshort, o["kind"]), 0)
        per_fn_idx[(fshort, o["kind"])] = n + 1
        if o["ok"] is None:
            rep.ob("C16.gram", "%s in %s: %s" % (o["kind"], fshort, text[o["kind"]]), "undecided", o["detail"], o["span"], fn=o["fn"])
        elif o["ok"]:
            rep.ob("C16.gram", "%s in %s: %s" % (o["kind"], fshort, text[o["kind"]]), "ok", o["detail"], o["span"], fn=o["fn"],
                   key="C16.gram|%s|%s|#%d" % (o["kind"], fshort, n))
        elif o["kind"] in ("O1",):
            # one violation per rule that has no arm: different rules are different defects (and different inputs)
            reach = sorted(fl.param_in.get(o["fn"], {}).items())
            for r in o.get("missing", []):
                rep.ob("C16.gram", "%s: the grammar can produce a `%s` node where the match on as_rule() has no arm for it and falls into a panic" % (fshort, r),
                       "violated", "a source text whose parse tree has `%s` at this position makes the compiler panic (exit 101) instead of printing a diagnostic; "
                       "node parameters of this function: %s" % (r, [(i, sorted(v[1]) if len(v) > 1 and v[1] else v[0]) for i, v in reach]),
                       o["span"], fn=o["fn"], key="C16.gram|O1|%s|%s" % (fshort, r))
        else:
            rep.ob("C16.gram", "%s in %s: %s" % (o["kind"], fshort, text[o["kind"]]), "violated", o["detail"], o["span"], fn=o["fn"],
                   key="C16.gram|%s|%s|#%d" % (o["kind"], fshort, n))
    rep.floor("C16.O1 matches on as_rule() with a panicking fall-through", counts["O1"], 15)
    rep.floor("C16.O2 unwrapped next()/last()", counts["O2"], 55)
    rep.floor("C16.O3 unwrapped single()", counts["O3"], 5)
    loop_boundary(F, rep)
    literal_conversions(F, rep)
    single_visit(F, rep)
    borrow_discipline(F, rep)
    fallible_contract(F, rep)
    index_sites(F, rep)
    len_minus(ctx, F, rep)
    depth_bound(F, rep)
    constant_index_is_converted_first(F, rep)
    expressions_are_typed_before_they_are_stored(F, rep)
    unwrap_assign_target_is_a_name(F, rep)
    folder_arithmetic_cannot_panic(F, rep)
    generator_errors_are_propagated(F, rep)
    path_parts_exist(F, rep)
    compound_targets_have_code(ctx.facts("default", ["bytecode", "compiler"]), rep)
    from props import _keywords
    rep.floor("C16.backtracking pairs of alternatives judged", _keywords.backtracking(F, rep, "C16.backtracking"), 100)
    # an index into a map that is compiled on the list path converts its constant key to a position during code generation (an Err there, and what it
    # leaves half-built, is not an input error any more): the dispatch clause of C13 also belongs here
    from props import C13 as _c13
    _c13.index_dispatch(ctx.facts("default", ["bytecode", "compiler"]), rep, rule="C16.index-dispatch")
    rep.extra["analysis_rounds"] = fl.rounds
    rep.extra["hand_assembled_option_unwraps_counted_not_judged"] = getattr(fl, "uncounted", 0)
    # K4 panics outside the clause: counted
    n4 = 0
    for f in F.crates["compiler"].fns:
        for c in f.calls():
            nm = mir.strip_generics(c.callee())
            if re.search(r"::(unwrap|expect)$", nm) or "core::panicking::" in nm:
                n4 += 1
    rep.extra["panic_sites_in_crate_compiler_total"] = n4


def compound_targets_have_code(F, rep, rule="C16.opassign-target"):
    """`x op= v` is accepted by Expr::for_type for some shapes of x and compiled by compile_depth for some shapes of x; the second list ends in
    `unimplemented!`.  Every shape the first accepts must have code in the second, or an accepted program (`(get c) += 1`) kills the compiler.
    Accepted: per switch on the left operand in the compound-assignment region of for_type, the variants whose arm can reach the call of
    get_output_type (a fall-through arm that goes on only behind Expr::root_ident is narrowed to the variants root_ident knows).  Compiled: the
    generator is evaluated once per left-operand shape; a shape all of whose paths end in a panic has no code."""
    import seqgen
    from absint import Variant, Opaque
    from props import C05 as _c05
    EXPR = "compiler::ast::math_expr::Expr"
    OP = "compiler::ast::math_expr::Op"
    VAL = "compiler::ast::value::Value"
    ea, oa, va = F.adt(EXPR), F.adt(OP), F.adt(VAL)
    ft = F.fn("compiler::ast::math_expr::Expr::for_type")
    cd = F.fn("compiler::ast::math_expr::compile_depth")
    if ea is None or oa is None or va is None or ft is None or cd is None:
        raise AnchorMissing("Expr / Op / Value / for_type / compile_depth")
    en = [v["name"] for v in ea["variants"]]
    on = [v["name"] for v in oa["variants"]]
    vn = [v["name"] for v in va["variants"]]
    gots = {c.bb for c in ft.calls_to("compiler::ast::r#type::TypeLayout::get_output_type")}
    conds, der = rules.storing_operator_conditions(F, ft)
    if not gots or not conds:
        raise AnchorMissing("get_output_type / the compound-assignment condition in Expr::for_type")
    region = set()
    for bb, t_t, f_t, pol in rules.bool_switches(ft, der):
        if pol is not None:
            region |= ft.reachable(t_t if pol else f_t)
    rt = F.fn("compiler::ast::math_expr::Expr::root_ident")
    rooted = set()
    if rt is not None:
        for blk in rt.blocks:
            t = blk["t"]
            if t["k"] == "switch" and len(t["targets"]) >= 2:
                rooted |= {en[int(v)] for v, _ in t["targets"] if int(v) < len(en)}
    ri = {c.bb for c in ft.calls_to("compiler::ast::math_expr::Expr::root_ident")}
    accepted = set(en)
    n_sw = 0
    for bi, blk in enumerate(ft.blocks):
        t = blk["t"]
        if t["k"] != "switch" or bi not in region:
            continue
        dl = op_local(t["discr"])
        src = [rv for b2, s2, dst, rv, s_ in ft.assigns() if dst["l"] == dl and "discr" in rv] if dl is not None else []
        if not src:
            continue
        pl = src[0]["discr"]
        if not (isinstance(pl, dict) and pl.get("p") == [["deref"]] and "math_expr::Expr" in ft.locals[pl["l"]]) or pl["l"] == 1:
            continue
        n_sw += 1
        named = {en[int(v)]: tg for v, tg in t["targets"] if int(v) < len(en)}
        for v in en:
            tg = named.get(v, t["otherwise"])
            reach = ft.reachable(tg)
            if not (reach & gots):
                accepted.discard(v)
            elif v not in named and rooted and not (ft.reachable(tg, removed_blocks=ri) & gots) and v not in rooted:
                accepted.discard(v)          # goes on only behind root_ident, which knows nothing of this shape
    rep.floor(rule + " tests of the left operand's shape in the compound-assignment part of for_type", n_sw, 1)
    n = 0
    for v in sorted(accepted):
        fields = [Opaque("l.%s" % f["name"]) for f in ea["variants"][en.index(v)]["fields"]]
        if v == "Value":
            fields = [Variant(VAL, vn.index("Ident"), "Ident", [Opaque("l.ident")])]
        lhs = Variant(EXPR, en.index(v), v, fields)
        node = Variant(EXPR, en.index("BinOp"), "BinOp", [lhs, Variant(OP, on.index("AddAssign"), "AddAssign", []), Opaque("rhs")])
        rows, ex = seqgen.sequences(F, cd, [node, Opaque("state"), Opaque("depth")], extra_models=_c05.OPAQUE_TYPING)
        kinds = {r["kind"] for r in rows}
        key = "%s|%s" % (rule, v)
        label = "`<%s> += v` is accepted by the type checker: the generator has code for that shape of target" % v
        if ex or not rows or (kinds - {"return", "panic"}):
            rep.ob(rule, label, "undecided", "generator paths %s (exhausted=%s)" % (sorted(kinds), ex), cd.span, fn=cd.path, key=key)
            continue
        n += 1
        has_code = any(r["kind"] == "return" and r["seq"] is not None for r in rows)
        rep.ob(rule, label, "ok" if has_code else "violated",
               "" if has_code else "every path of compile_depth for this target ends in a panic (unimplemented!): the program type-checks and `mscript compile` dies with "
               "exit 101 instead of a diagnostic", cd.span, fn=cd.path, key=key)
    rep.floor(rule + " accepted target shapes judged", n, 3)


def loop_boundary(F, rep):
    """`break` / `continue` are accepted only inside a loop of the *same function*: the scope scan of scopes_since_loop must stop at a
    function scope.  Otherwise a `break` in a closure declared inside a loop is accepted, its placeholder is never resolved and code
    generation dies in `unreachable!("break/continue that was not fulfilled")`."""
    import rules
    from mir import op_local
    f = F.fn("compiler::parser::AssocFileData::scopes_since_loop")
    if f is None:
        raise AnchorMissing("AssocFileData::scopes_since_loop")
    bodies = [f] + F.closures_of(f)
    IS_LOOP = "compiler::scope::Scope::is_loop"
    IS_FN = "compiler::scope::Scope::is_function"
    loops = [(g, c) for g in bodies for c in g.calls_to(IS_LOOP)]
    fns = [(g, c) for g in bodies for c in g.calls_to(IS_FN)]
    key = "C16.loop-boundary|scopes_since_loop"
    what = "scopes_since_loop stops scanning at a function scope (break / continue cannot target a loop outside the enclosing function)"
    if not loops:
        raise AnchorMissing("Scope::is_loop in scopes_since_loop")
    if not fns:
        rep.ob("C16.loop-boundary", what, "violated", "Scope::is_function is not consulted while looking for the enclosing loop", f.span, fn=f.path, key=key)
        return
    if any(g is not f for g, _ in loops + fns):
        rep.ob("C16.loop-boundary", what, "undecided", "the scan is written with closures; shape not recognised", f.span, fn=f.path, key=key)
        rep.floor("C16.loop-boundary decided", 0, 1)
        return
    # the scan can move on to the next scope only across the false edge of is_function
    heads = {c.bb for c in f.calls() if c.matches("core::iter::traits::iterator::Iterator::next")}
    removed = set()
    for g, c in fns:
        der = f.derived([c.dst["l"]])
        for bb, t_t, f_t, pol in rules.bool_switches(f, der):
            if pol is None:
                continue
            removed.add((bb, f_t if pol else t_t))
    ok = bool(removed) and bool(heads)
    for g, c in loops:
        der = f.derived([c.dst["l"]])
        for bb, t_t, f_t, pol in rules.bool_switches(f, der):
            if pol is None:
                continue
            not_loop = f_t if pol else t_t
            reach = f.reachable(not_loop, removed_edges=removed)
            if reach & heads:
                ok = False
    # and the function-scope edge must not lead to an Ok return
    for g, c in fns:
        der = f.derived([c.dst["l"]])
        for bb, t_t, f_t, pol in rules.bool_switches(f, der):
            if pol is None:
                continue
            is_fn_edge = t_t if pol else f_t
            reach = f.reachable(is_fn_edge, removed_blocks=heads)
            if any(b in reach for b in rules.ok_return_blocks(f)):
                ok = False
    rep.ob("C16.loop-boundary", what, "ok" if ok else "violated",
           "" if ok else "the scan continues past a function scope (or returns Ok at one): a `break` in a closure declared inside a loop is accepted and never resolved",
           f.span, fn=f.path, key=key)
    rep.floor("C16.loop-boundary decided", 1, 1)


PARSE_CALLS = ("core::str::<impl str>::parse", "core::str::traits::FromStr::from_str")


def literal_conversions(F, rep):
    """Turning source text into a number is fallible for every integer type (the grammar bounds the *shape* of a literal, not its value:
    `0b111111111` is a well-formed byte literal that does not fit a byte).  The Result of str::parse / from_str_radix on text must be
    propagated, not unwrapped: an unwrap / expect there is a panic on a for-all-inputs basis, whatever the message says."""
    import rules
    from mir import op_local
    n = 0
    for f in F.crates["compiler"].fns:
        for c in f.calls():
            is_parse = c.matches(PARSE_CALLS) or "::from_str_radix" in c.callee()
            if not is_parse:
                continue
            n += 1
            der = f.derived([c.dst["l"]])
            bad = [u for u in f.calls() if u.matches(("core::result::Result::unwrap", "core::result::Result::expect", "core::result::Result::unwrap_unchecked",
                                                       "core::option::Option::unwrap", "core::option::Option::expect"))
                   and u.args and op_local(u.args[0]) in der]
            fshort = mir.short(re.sub(r"::\{closure#\d+\}", "::{closure}", f.path))
            rep.ob("C16.literal", "%s: the result of %s on source text is propagated, not unwrapped" % (fshort, mir.short(mir.strip_generics(c.callee()))),
                   "violated" if bad else "ok", "unwrapped at %s: a literal whose value does not fit the type panics the compiler" % [b.span for b in bad] if bad else "",
                   c.span, fn=f.path, key="C16.literal|%s|%s" % (fshort, mir.short(mir.strip_generics(c.callee()))))
    rep.floor("C16.literal text-to-number conversions", n, 5)


def single_visit(F, rep):
    """Recursive walkers over the syntax tree visit each child once per level.  A function that calls back into its own recursion cycle twice on
    the same child (directly, or through a helper such as a default trait method that itself evaluates the child) does 2^depth work: a
    left-deep chain of a few dozen operators hangs the compiler.  Exact structural rule: within one function of a recursive cycle of the
    call graph (trait calls resolved to every impl), no control-flow path contains two calls into the cycle whose receiver is the same
    field of the same parameter."""
    import sys
    import rules
    from mir import op_local
    fns = {f.path: f for f in F.crates["compiler"].fns}
    g0 = F.call_graph()
    # class-hierarchy edges: a call of a trait item may reach every impl of it
    impls = {}
    for p in fns:
        m = re.match(r"<(.+) as (.+)>::(\w+)$", p)
        if m and mir.strip_generics(m.group(2)).startswith("compiler::"):
            # only the crate's own traits (Compile, Dependencies, CompileTimeEvaluate, IntoType ...): std traits such as Deref / Display have
            # impls all over and would tie unrelated functions into bogus cycles
            impls.setdefault("%s::%s" % (m.group(2), m.group(3)), set()).add(p)
    g = {}
    for p in fns:
        outs = set()
        for q in g0.get(p, ()):
            q2 = mir.strip_generics(q)
            if q in fns:
                outs.add(q)
            fq = F.fn(q)
            if fq is not None and fq.path in fns:
                outs.add(fq.path)
            for k, v in impls.items():
                if q2 == mir.strip_generics(k):
                    outs |= v
        g[p] = outs
    sys.setrecursionlimit(20000)
    index, low, st, on, sccs, ctr = {}, {}, [], set(), [], [0]

    def strong(v):
        index[v] = low[v] = ctr[0]
        ctr[0] += 1
        st.append(v)
        on.add(v)
        for w in g.get(v, ()):
            if w not in index:
                strong(w)
                low[v] = min(low[v], low[w])
            elif w in on:
                low[v] = min(low[v], index[w])
        if low[v] == index[v]:
            comp = []
            while True:
                w = st.pop()
                on.discard(w)
                comp.append(w)
                if w == v:
                    break
            sccs.append(comp)
    for v in fns:
        if v not in index:
            strong(v)
    rec = [c for c in sccs if len(c) > 1 or c[0] in g.get(c[0], ())]
    # generated parser code (pest rule closures) recurses by design on the *input position*, not on AST children
    rec = [c for c in rec if not all("parse::rules::" in x for x in c)]
    rep.floor("C16.single-visit recursive cycles in the compiler's call graph", len(rec), 5)
    doubles = []
    n_calls = 0
    for comp in rec:
        cs = set(comp)
        for p in comp:
            f = fns[p]
            by = {}
            for c in f.calls():
                tgt = set()
                for q in (c.res, c.defn):
                    if not q:
                        continue
                    if q in cs:
                        tgt.add(q)
                    fq = F.fn(q)
                    if fq is not None and fq.path in cs:
                        tgt.add(fq.path)
                    for k, v in impls.items():
                        if mir.strip_generics(q) == mir.strip_generics(k) and v & cs:
                            tgt |= (v & cs)
                if not tgt or not c.args:
                    continue
                l = op_local(c.args[0])
                if l is None:
                    continue
                key = tuple(sorted((o, fs) for o, fs in rules.trace_paths(f, l) if o[0] == "arg" and fs))
                if not key:
                    continue
                n_calls += 1
                by.setdefault(key, []).append(c)
            for key, lst in by.items():
                for i, a in enumerate(lst):
                    for b in lst[i + 1:]:
                        if a.bb == b.bb:
                            continue
                        ra = f.reachable(a.target) if a.target is not None else set()
                        rb = f.reachable(b.target) if b.target is not None else set()
                        if b.bb in ra or a.bb in rb:
                            doubles.append((p, key, a, b))
    whole_then_parts(F, rep)
    seen = set()
    for p, key, a, b in doubles:
        fshort = mir.short(re.sub(r"::\{closure#\d+\}", "::{closure}", p))
        child = ".".join(str(x) for x in key[0][1])
        k = "C16.single-visit|%s|%s" % (fshort, child)
        if k in seen:
            continue
        seen.add(k)
        rep.ob("C16.single-visit", "%s evaluates its child `%s` once per level" % (fshort, child), "violated",
               "two calls into the recursion on the same child lie on one path (%s at %s and %s at %s): 2^depth work on a nested expression -- the compiler "
               "does not terminate promptly" % (mir.short(a.callee()), a.span, mir.short(b.callee()), b.span), a.span, fn=p, key=k)
    rep.ob("C16.single-visit", "no recursive walker of the syntax tree descends twice into the same child on one path (%d recursive calls on children inspected)" % n_calls,
           "ok" if not doubles else "violated", "", None, key="C16.single-visit|summary")
    rep.floor("C16.single-visit recursive calls on child fields inspected", n_calls, 40)


SCOPE_CELL = "alloc::vec::Vec<compiler::scope::Scope>"


def borrow_discipline(F, rep):
    """No `RefCell already borrowed` panic on the scope stack: see props/_borrows.py.  One obligation per function that holds a guard into the
    scope stack, a violation per call of a scope-stack mutator made while the guard may be alive."""
    from props import _borrows
    bad, _ok, st = _borrows.judge(F, SCOPE_CELL, "compiler")
    hits = [(f, l, prod, c) for f, l, prod, c, _why in bad]
    rep.floor("C16.borrow functions holding scope-stack guards", st["functions_with_guards"], 40)
    rep.floor("C16.borrow guards born", st["guards_born"], 30)
    rep.floor("C16.borrow functions that may mutably borrow the scope stack", st["mutators"], 40)
    by_fn = {}
    for f, l, prod, c in hits:
        by_fn.setdefault((f.path, mir.short(prod.callee()), mir.short(c.callee())), (f, l, prod, c))
    for (fp, pn, cn), (f, l, prod, c) in sorted(by_fn.items()):
        rep.ob("C16.borrow", "%s calls %s while the guard from %s (`%s`) is alive" % (mir.short(fp), cn, pn, f.local_name(l)), "violated",
               "%s can take a mutable borrow of the scope stack (RefCell<Vec<Scope>>); with the guard from %s still alive the compiler panics with "
               "`RefCell already borrowed` instead of compiling or reporting an error" % (cn, prod.span), c.span, fn=f.path,
               key="C16.borrow|%s|%s|%s" % (mir.short(fp), pn, cn))
    rep.ob("C16.borrow", "no scope-stack mutator runs while a guard into the scope stack is alive (%d functions with guards, %d guards, %d mutators)" % (
        st["functions_with_guards"], st["guards_born"], st["mutators"]), "ok", "", None, key="C16.borrow|summary")


def fallible_contract(F, rep):
    """A conversion that is fallible by its own contract -- an `impl TryFrom / FromStr`, a function named `try_..` -- reports failure through its
    result.  An explicit `unreachable!` / `panic!` / `todo!` / `unimplemented!` in its body is a case the author believed impossible while the
    signature says the caller may hand it anything: on that input the compiler panics instead of reporting an error."""
    import re as _re
    n = 0
    for f in F.crates["compiler"].fns:
        topp = _re.sub(r"::\{closure#\d+\}", "", f.path)
        last = topp.split("::")[-1]
        if not (last.startswith("try_") or last in ("try_from", "try_into", "from_str")):
            continue
        n += 1
        hits = []
        for c in f.calls():
            mc = c.t.get("mc") or []
            if c.target is None and any(m in ("unreachable", "panic", "todo", "unimplemented") for m in mc) and not f.blocks[c.bb].get("cleanup"):
                hits.append((next(m for m in mc if m in ("unreachable", "panic", "todo", "unimplemented")), c.span))
        rep.ob("C16.fallible-contract", "%s reports every failure through its result (no explicit panic in its body)" % mir.short(topp),
               "violated" if hits else "ok", "; ".join("%s!() at %s" % h for h in hits[:3]), f.span, fn=f.path,
               key="C16.fallible-contract|%s" % f.path)
    rep.floor("C16.fallible-contract functions fallible by name or trait", n, 10)


def index_sites(F, rep):
    """Indexing in the compiler does not panic on program text.  Every `x[i]` / `x[a..]` on a Vec, slice or String in crate compiler is
    discharged by (a) a dominating range comparison of the index, (b) a dominating `i == x.len()` test whose equal edge leaves (break / return)
    for an index counted up by enumerate(), (c) `len - 1` under a dominating `len == 0` exit, or (d) a constant prefix cut of a token's text that
    is no longer than the literal the token's grammar rule starts with; anything else is a violation."""
    from props import _panics
    import gram
    n = 0
    G = F.grammar()
    grules = {r["name"]: r for r in (G["rules"] if isinstance(G, dict) and "rules" in G else G)}

    def first_literal(rule):
        e = grules.get(rule, {}).get("expr")
        while isinstance(e, dict) and e.get("k") == "seq":
            e = e["a"]
        return e.get("v") if isinstance(e, dict) and e.get("k") == "str" else None
    prefix_lens = {len(first_literal(r)) for r in ("bigint", "hex_int", "byte") if first_literal(r)}
    for s in _panics.sites(F, crate="compiler"):
        if s["kind"] != "K2" or not s["what"].startswith("Index on"):
            continue
        f, bb, idx = s["fn"], s["bb"], s.get("idx")
        n += 1
        why = None
        if _panics.len_guarded(f, bb, idx):
            why = "a range comparison of the index dominates the access"
        if why is None and idx is not None:
            chain = set(rules.chain_locals(f, idx)) | {idx}
            doms = f.dominators()
            for bi, si, d, rv, st in f.assigns():
                if "bin" in rv and rv["bin"] == "Eq" and bi in doms.get(bb, ()) and bi != bb:
                    sides = [op_local(rv["l"]), op_local(rv["r"])]
                    lens = [x for x in sides if x is not None and any(c.callee().endswith("::len") for c in rules.origin_calls(f, x))]
                    zero = (op_const(rv["l"]) or op_const(rv["r"]) or {}).get("int") == "0"
                    t = f.term(bi)
                    if t["k"] != "switch" or op_local(t["discr"]) != d["l"]:
                        continue
                    eq_t = t["otherwise"]
                    ne_t = next((tg for v, tg in t["targets"] if v == "0"), None)
                    leaves = bb not in f.reachable(eq_t)
                    if not leaves:
                        continue
                    # (b) i == x.len() with i from the access's index chain
                    if lens and any((set(rules.chain_locals(f, x)) | {x}) & chain for x in sides if x is not None and x not in lens):
                        why = "`index == len` leaves the loop before the access (the index counts up from 0)"
                    # (c) len == 0 exit and index = len - 1
                    if zero and lens:
                        for b2, s2, d2, rv2, st2 in f.assigns():
                            if d2.get("l") in chain and "bin" in rv2 and rv2["bin"] in ("Sub", "SubWithOverflow") and op_local(rv2["l"]) is not None and (
                                    set(rules.chain_locals(f, op_local(rv2["l"]))) | {op_local(rv2["l"])}) & (set(lens) | set(x for l in lens for x in rules.chain_locals(f, l))):
                                why = "`len == 0` returns before `len - 1` is used as the index"
        if why is None:
            # closures: the index may be a captured `len - 1`; look in the parent for the len == 0 exit
            parent = F.fn(re.sub(r"::\{closure#\d+\}$", "", f.path)) if "{closure#" in f.path else None
            if parent is not None and f.path != parent.path:
                for bi, si, d, rv, st in parent.assigns():
                    if "bin" in rv and rv["bin"] == "Eq" and (op_const(rv["l"]) or op_const(rv["r"]) or {}).get("int") == "0":
                        t = parent.term(bi)
                        if t["k"] == "switch":
                            eq_t = t["otherwise"]
                            uses = [c.bb for c in parent.calls() if rules.closure_def_of_arg(parent, c.args[1] if len(c.args) > 1 else c.args[0] if c.args else None) == f.path] if False else []
                            cl_blocks = [b2 for b2, s2, d2, rv2, st2 in parent.assigns() if "agg" in rv2 and rv2["agg"].get("k") == "closure" and rv2["agg"].get("def") == f.path]
                            if cl_blocks and all(b2 not in parent.reachable(eq_t) for b2 in cl_blocks):
                                why = "the closure is built only after `len == 0` returned (index = len - 1)"
        if why is None and "String" in s["what"] and idx is not None:
            ty = f.locals[idx]
            if "RangeFrom" in ty:
                starts = set()
                for bi, si, d, rv, st in f.assigns():
                    if d.get("l") == idx and "agg" in rv:
                        for o in rv["ops"]:
                            k = op_const(o)
                            if k and "int" in k:
                                starts.add(int(k["int"]))
                if starts and starts <= prefix_lens:
                    why = "cuts off %s byte(s) of a token whose grammar rule starts with a literal of that length" % sorted(starts)
        rep.ob("C16.index", "%s: %s cannot be out of range" % (mir.short(f.path), s["what"]), "ok" if why else "violated",
               why or "no range test of the index dominates the access: an unexpected length makes the compiler panic instead of reporting an error", s["span"], fn=f.path,
               key="C16.index|%s|%s" % (mir.short(f.path), s["what"][:40]))
    rep.floor("C16.index sites in crate compiler", n, 4)



def len_minus(ctx, F, rep):
    """`xs.len() - k` on an unsigned length panics (debug) or wraps (release) when the collection is shorter than k, and in the compiler every
    collection's size comes from the input text.  Every checked subtraction in crate compiler whose minuend is a collection length
    (`Vec::len`, slice length) and whose subtrahend is a constant is dominated by a test of that same length (a comparison, `is_empty`,
    `checked_sub`), or is listed in rules/len_minus.json with the reason the collection cannot be that short."""
    import json as _json
    import os as _os
    from core import VERIF
    allow = {}
    pth = _os.path.join(VERIF, "rules", "len_minus.json")
    if _os.path.exists(pth):
        for e in _json.load(open(pth))["allowed"]:
            allow[(e["function"], e["collection"])] = e["reason"]
    LEN = ("alloc::vec::Vec<T, A>::len", "alloc::vec::Vec::<T, A>::len", "core::slice::<impl [T]>::len", "alloc::vec::Vec::len", "alloc::collections::vec_deque::VecDeque::len")
    n = 0
    for f in F.crates["compiler"].fns:
        for bi, blk in enumerate(f.blocks):
            t = blk["t"]
            if t["k"] != "assert" or not (t["msg"].startswith("Overflow") and "Sub" in t["msg"]):
                continue
            # the checked subtraction feeding this assert
            sub = None
            for s_ in blk["s"]:
                rv = s_.get("rv", {})
                if rv.get("bin") in ("SubWithOverflow",) and rv.get("lty") == "usize":
                    sub = (rv, s_)
            if sub is None:
                continue
            rv, st = sub
            k = mir.op_const(rv["r"])
            l = op_local(rv["l"])
            if k is None or l is None:
                continue
            oc = rules.origin_calls(f, l, transparent=rules.TRANSPARENT)
            lens = [c for c in oc if c.matches(LEN) or mir.short(c.callee()) in ("Vec::<T, A>::len", "Vec<T, A>::len", "[T]::len")]
            meta = any(d[0] == "assign" and ("ptr_metadata" in str(d[4]) or d[4].get("un") == "PtrMetadata") for d in rules.defs_of(f, l))
            if not lens and not meta:
                continue
            n += 1
            # what is measured
            coll = "?"
            if lens:
                rl = op_local(lens[0].args[0]) if lens[0].args else None
                tp = rules.trace_paths(f, rl, transparent=rules.TRANSPARENT) if rl is not None else None
                names = sorted({".".join(str(x) for x in fs) for (_, fs) in (tp or [])})
                coll = names[0] if names and names[0] else "?"
                if coll == "?" and rl is not None:
                    # the receiver is a reference to a named local (`&idents`)
                    for d in rules.defs_of(f, rl):
                        if d[0] == "assign" and d[4].get("ref"):
                            coll = f.local_name(d[4]["ref"]["l"]) or coll
            key = "C16.len-minus|%s|%s" % (mir.short(f.path), coll)
            inst = "%s: `%s.len() - %s` is computed only when the collection is long enough" % (mir.short(f.path), coll, k.get("int"))
            # guarded: a branch on a value derived from the same length dominates the subtraction
            der = f.derived([c.dst["l"] for c in lens] or [l])
            guarded = False
            for bb2, blk2 in enumerate(f.blocks):
                t2 = blk2["t"]
                if t2["k"] == "switch" and op_local(t2["discr"]) in der and bb2 != bi:
                    for tgt in set(x[1] for x in t2["targets"]) | {t2["otherwise"]}:
                        if not bi in f.reachable(0, removed_edges={(bb2, tgt)}):
                            guarded = True
            emp = [c for c in f.calls() if mir.short(c.callee()).endswith("::is_empty") and rules.call_dominates(f, [c], bi)]
            if guarded or emp:
                rep.ob("C16.len-minus", inst, "ok", "dominated by a test of the length", st.get("sp"), fn=f.path, key=key)
            elif (mir.short(f.path), coll) in allow:
                rep.ob("C16.len-minus", inst, "exempt", allow[(mir.short(f.path), coll)], st.get("sp"), fn=f.path, key=key)
            else:
                rep.ob("C16.len-minus", inst, "violated", "no test of the length dominates the subtraction: an input that makes the collection shorter than %s "
                       "crashes the compiler (`attempt to subtract with overflow`)" % k.get("int"), st.get("sp"), fn=f.path, key=key)
    rep.floor("C16.len-minus length subtractions in the compiler", n, 1)



def depth_bound(F, rep):
    """`compile` never dies of a stack overflow only if something bounds how deep its recursions go, and every recursion in the compiler
    (the generated recursive-descent parser, the AST builders, type checking, code generation) follows the nesting of the input text.  The
    first of them to run is the parser: if it refuses inputs nested deeper than some D (pest's call limit) or grows its stack on demand
    (stacker), every later recursion is bounded by D as well.  The rule finds the recursive strongly connected component of the generated
    parser in the crate's call graph and looks for either guard anywhere in the crate; with neither, nesting depth is bounded by nothing but
    the size of the input, and a few kilobytes of `(` overflow the stack."""
    import sys as _sys
    fns = {f.path: f for f in F.crates["compiler"].fns}
    adj = {}
    for pth, f in fns.items():
        out = set()
        for c in f.calls():
            for nm in [c.callee()] + sorted(c.names):
                if nm in fns:
                    out.add(nm)
        for g in F.closures_of(f):
            out.add(g.path)
        adj[pth] = out
    # iterative Tarjan
    index, low, on, stack, comps = {}, {}, set(), [], []
    counter = [0]
    for root in adj:
        if root in index:
            continue
        work = [(root, iter(sorted(adj[root])))]
        index[root] = low[root] = counter[0]
        counter[0] += 1
        stack.append(root)
        on.add(root)
        while work:
            v, it = work[-1]
            adv = False
            for w in it:
                if w not in index:
                    index[w] = low[w] = counter[0]
                    counter[0] += 1
                    stack.append(w)
                    on.add(w)
                    work.append((w, iter(sorted(adj.get(w, ())))))
                    adv = True
                    break
                elif w in on:
                    low[v] = min(low[v], index[w])
            if adv:
                continue
            work.pop()
            if work:
                u = work[-1][0]
                low[u] = min(low[u], low[v])
            if low[v] == index[v]:
                comp = []
                while True:
                    w = stack.pop()
                    on.discard(w)
                    comp.append(w)
                    if w == v:
                        break
                if len(comp) > 1 or v in adj.get(v, ()):
                    comps.append(comp)
    parser_sccs = [c for c in comps if any("::parse::rules::visible::" in x for x in c)]
    rep.floor("C16.depth recursive components of the generated parser", len(parser_sccs), 1)
    rep.extra["recursive_components_in_compiler"] = sorted(((len(c), sorted(mir.short(x) for x in c)[0]) for c in comps), reverse=True)[:12]
    guards = []
    for f in F.all_fns():
        for c in f.calls():
            n = c.callee()
            if n.startswith("stacker::") or n.endswith("pest::set_call_limit") or "set_call_limit" in n:
                guards.append("%s in %s" % (mir.short(n), mir.short(f.path)))
    big = max(parser_sccs, key=len)
    rep.ob("C16.depth", "the nesting depth the recursive-descent parser follows is bounded (call limit) or the stack grows with it (stacker)",
           "ok" if guards else "violated",
           ("guards: %s (whether the bound fits the stack is not decided)" % guards[:3]) if guards else
           "the generated parser is one recursive component of %d functions, the AST builders, type checker and code generator recurse over its output "
           "(%d recursive components in the crate), and nothing limits depth: 1500 nested parentheses (3 kB) end in `thread main has overflowed its stack`"
           % (len(big), len(comps)), None, fn="compiler::parser::Parser", key="C16.depth|parser-recursion")



def constant_index_is_converted_first(F, rep):
    """Code generation converts a constant list / str index to `usize` again (`Index::compile`: `number.try_into()?`) and its callers unwrap
    the result (`Block::compile`, `Callable::compile`): the only thing that keeps a negative or oversized constant index from becoming a
    compiler panic is that the type checker performed the same conversion successfully first.  In TypeLayout::get_output_type_from_index
    every Ok return of the list / str part (everything after the index's type was accepted by can_be_used_as_list_index) is therefore
    dominated by the `Value::get_usize` conversion of the index."""
    f = F.fn("compiler::ast::r#type::TypeLayout::get_output_type_from_index")
    if f is None:
        raise AnchorMissing("TypeLayout::get_output_type_from_index")
    gate = f.calls_to("compiler::ast::r#type::TypeLayout::can_be_used_as_list_index")
    conv = [c for c in f.calls() if c.callee().endswith("::get_usize")]
    if not gate or not conv:
        rep.ob("C16.index-const", "get_output_type_from_index converts a constant index before it answers", "undecided" if gate else "violated",
               "can_be_used_as_list_index / get_usize calls not found", f.span, fn=f.path, key="C16.index-const")
        return
    after = set()
    for g in gate:
        if g.target is not None:
            after |= f.reachable(g.target)
    oks = [b for b in rules.ok_return_blocks(f) if b in after]
    bad = [b for b in oks if not rules.call_dominates(f, conv, b)]
    rep.floor("C16.index-const Ok returns of the list / str part of get_output_type_from_index", len(oks), 3)
    rep.ob("C16.index-const", "for a list or str receiver the element type is answered only after the index went through get_usize",
           "violated" if bad else "ok",
           ("an Ok return (bb %s) is reachable without the conversion: `xs[-1]` on a `[T...]` list type-checks, the code generator's own conversion fails and its "
            "caller unwraps the error (compiler panic inside a block or call argument)" % bad) if bad else "%d Ok returns, all behind the conversion" % len(oks),
           conv[0].span, fn=f.path, key="C16.index-const")



def expressions_are_typed_before_they_are_stored(F, rep, rule="C16.typed-tree"):
    """Later stages take the type of an expression they were handed with `.unwrap()` / `if let Ok(..)` + `.unwrap()` (counted, not judged, above):
    that rests on the invariant that no Expr leaves the expression parser unless its whole tree type-checks.  The nodes are checked where
    they are built, but some leaves are not (a bare `self` outside of a class), so the last step of parse_expr checks the finished tree.
    Structural part: the value parse_expr returns is the result of `and_then` over a closure whose own result derives from
    Expr::for_type / validate / validate_owned on the expression."""
    pe = F.fn("compiler::ast::math_expr::parse_expr")
    if pe is None:
        raise AnchorMissing("math_expr::parse_expr")
    CHECKS = ("compiler::ast::math_expr::Expr::validate_owned", "compiler::ast::math_expr::Expr::validate", "compiler::ast::math_expr::Expr::for_type")
    PASS = rules.TRANSPARENT | {rules.TRY_BRANCH, "compiler::CompilationError::details", "compiler::VecErr::to_err_vec", "core::result::Result::map",
                                "core::result::Result::map_err", "core::result::Result::and_then"}
    thens = [c for c in pe.calls() if c.matches("core::result::Result::and_then")]
    ret_calls = rules.origin_calls(pe, 0, transparent=rules.TRANSPARENT | {rules.TRY_BRANCH})
    final = [c for c in thens if c in ret_calls or c.dst["l"] == 0]
    ok, why = False, "the value parse_expr returns does not go through `and_then` (origins: %s)" % sorted({mir.short(mir.strip_generics(c.callee())) for c in ret_calls})[:3]
    for c in final:
        cd = rules.closure_def_of_arg(pe, c.args[1]) if len(c.args) > 1 else None
        cl = F.fn(cd) if cd else None
        if cl is None:
            why = "the function handed to and_then is not a closure of parse_expr"
            continue
        checks = [k for k in cl.calls() if k.matches(CHECKS)]
        oc = rules.origin_calls(cl, 0, transparent=PASS)
        if checks and any(k in oc for k in checks):
            ok = True
        else:
            why = "the last step of parse_expr does not type-check the finished tree (%d check calls, result derives from %s): `limit: int = self` at module level reaches an unwrap" % (
                len(checks), sorted({mir.short(mir.strip_generics(k.callee())) for k in oc})[:3])
    rep.ob(rule, "parse_expr returns an expression only if its finished tree type-checks", "ok" if ok else "violated", "" if ok else why, pe.span, fn=pe.path,
           key=rule + "|parse_expr")



def unwrap_assign_target_is_a_name(F, rep, rule="C16.codegen-shape"):
    """The code generator of `a ?= e` takes the name out of its left operand with `let Expr::Value(Value::Ident(..)) = lhs else { unreachable!() }`.
    That shape has to be established where the operator is built: in the infix closure of parse_expr, `Op::Unwrap` is produced only behind the
    edge of a match of the left operand *expression* against Expr::Value(Value::Ident) (the rule of the span is not enough: the span of
    `self(..)` is the span of `self`)."""
    pe = F.fn("compiler::ast::math_expr::parse_expr")
    if pe is None:
        raise AnchorMissing("math_expr::parse_expr")
    va = F.adt("compiler::ast::value::Value")
    vnames = [v["name"] for v in va["variants"]]
    ident_i = str(vnames.index("Ident"))
    sites = []
    for g in F.closures_of(pe):
        for bi, si, dst, rv, st in g.assigns():
            if "agg" in rv and rv["agg"].get("adt") == "compiler::ast::math_expr::Op" and rv["agg"].get("v") == "Unwrap":
                sites.append((g, bi, st.get("sp")))
    rep.floor(rule + " constructions of Op::Unwrap in the expression parser", len(sites), 1)
    for i, (g, bb, sp) in enumerate(sites):
        passing = set()
        for bi, blk in enumerate(g.blocks):
            t = blk["t"]
            if t["k"] != "switch" or t.get("dty") != "isize":
                continue
            dl = op_local(t["discr"])
            for s_ in blk["s"]:
                rv = s_.get("rv") or {}
                if "d" in s_ and s_["d"]["l"] == dl and "discr" in rv:
                    pr = rv["discr"].get("p") or []
                    # the discriminant of the Value inside an Expr::Value
                    if any(e[0] == "downcast" and e[1] == "Value" for e in pr) and any(e[0] == "field" and str(e[-1]).endswith("value::Value") for e in pr) \
                            and "math_expr::Expr" in g.locals[rv["discr"]["l"]]:
                        for v, tg in t["targets"]:
                            if v == ident_i:
                                passing.add((bi, tg))
        ok = bool(passing) and bb not in g.reachable(0, removed_edges=passing)
        rep.ob(rule, "`?=` is built only when its left operand is the expression of a plain name", "ok" if ok else "violated",
               "" if ok else ("%d match(es) of an operand against Expr::Value(Value::Ident) in the closure; Op::Unwrap is reachable without one: `if self(nil) ?= m {}` "
                              "in a function reaches the code generator's unreachable!()" % len(passing)), sp, fn=g.path, key="%s|unwrap-target#%d" % (rule, i))



def folder_arithmetic_cannot_panic(F, rep, rule="C16.folder-arith"):
    """The constant folder computes with numbers it read out of the source text: every operand is input.  In its module (compiler::ast::number,
    the operator impls for Number and their helpers) no integer operation may be one that panics on some operand: no unchecked `+ - * / %
    << >>` or negation on i32 / i128 / u8 / u32 (a MIR overflow / zero-divisor assertion), and no std routine that panics on a zero divisor
    or on overflow (`wrapping_rem`, `wrapping_div`, `rem_euclid`, `pow`, `abs` ...): the checked_* forms hand the failure back as a value."""
    from props import _panics
    PANICKY = re.compile(r"core::num::<impl (i8|i16|i32|i64|i128|isize|u8|u16|u32|u64|u128|usize)>::(wrapping_div|wrapping_rem|wrapping_div_euclid|wrapping_rem_euclid|overflowing_div|"
                         r"overflowing_rem|overflowing_div_euclid|overflowing_rem_euclid|div_euclid|rem_euclid|div_floor|div_ceil|next_multiple_of|pow|abs|isqrt|ilog|ilog2|ilog10|"
                         r"next_power_of_two|unchecked_\w+|strict_\w+)$")
    mod = [f for f in F.crates["compiler"].fns if re.search(r"compiler::ast::number::(?!.*number_loop)", f.path) and "number_loop" not in f.path]
    rep.floor(rule + " functions of the folder's module", len(mod), 40)
    bad = []
    n = 0
    for f in mod:
        for c in f.calls():
            nm = mir.strip_generics(c.callee())
            if nm.startswith("core::num::"):
                n += 1
                if PANICKY.search(nm):
                    bad.append((f, mir.short(nm), c.span))
    for s_ in _panics.sites(F, crate="compiler"):
        f = s_["fn"]
        if f in mod and s_["kind"] == "K1" and not re.search(r"\((usize|isize)\)", s_["what"]):
            bad.append((f, s_["what"], s_.get("span")))
    seen = {}
    for f, what, sp in bad:
        owner = mir.short(re.sub(r"::\{closure#\d+\}", "", f.path))
        seen[(owner, what)] = seen.get((owner, what), 0) + 1
        if seen[(owner, what)] > 1:
            continue
        rep.ob(rule, "%s computes with source numbers through %s" % (owner, what), "violated",
               "panics on some operand (a zero divisor, the smallest value, an overflow): `x = 1000 % 0` kills the compiler instead of producing a diagnostic", sp, fn=f.path,
               key="%s|%s|%s" % (rule, owner, what))
    if not bad:
        rep.ob(rule, "the constant folder uses no integer operation that can panic on its operands", "ok", "%d core::num calls inspected" % n, None, key=rule + "|summary")
    rep.floor(rule + " core::num calls in the folder's module", n, 20)



def generator_errors_are_propagated(F, rep, rule="C16.codegen-errors"):
    """The code generator reports what it cannot compile as an `Err` (`bail!("cannot negate")`); the top level turns that into a diagnostic.  That only
    works if every caller in between hands the error on: an `unwrap()` / `expect()` on the result of a `compile` / `compile_depth` call turns
    every such diagnostic into a compiler panic as soon as the construct stands inside a block or an argument list.  (Who-may-unwrap rule over
    the resolved callees.)  Likewise the type of an expression is computed with `bail!`, not with `assert_eq!`: Expr::for_type and its
    closures contain no assertion (`"ab" or "abc"` used to trip one)."""
    n, bad = 0, []
    for f in F.crates["compiler"].fns:
        if "::tests::" in f.path:
            continue
        for c in f.calls():
            if c.callee().endswith("::compile") or "Compile>::compile" in c.callee() or c.callee().endswith("::compile_depth"):
                n += 1
        for c in f.calls():
            if c.matches(("core::result::Result::unwrap", "core::result::Result::expect", "core::result::Result::unwrap_unchecked")) and c.args:
                l = op_local(c.args[0])
                for x in (rules.origin_calls(f, l, transparent=set()) if l is not None else []):
                    if x.callee().endswith("::compile") or "Compile>::compile" in x.callee() or x.callee().endswith("::compile_depth"):
                        bad.append((f, x, c))
    seen = {}
    for f, x, c in bad:
        owner = mir.short(re.sub(r"::\{closure#\d+\}", "", f.path))
        seen[owner] = seen.get(owner, 0) + 1
        rep.ob(rule, "%s hands on the error of %s" % (owner, mir.short(x.callee())), "violated",
               "the result is unwrapped: an error of the code generator inside this construct (`type N int` / `n: N = 5` / `if true { print -n }` used to be one) panics the compiler",
               c.span, fn=f.path, key="%s|%s#%d" % (rule, owner, seen[owner]))
    if not bad:
        rep.ob(rule, "no result of the code generator is unwrapped on its way up", "ok", "%d compile calls inspected" % n, None, key=rule + "|summary")
    rep.floor(rule + " calls of the code generator", n, 60)
    ft = F.fn("compiler::ast::math_expr::Expr::for_type")
    if ft is None:
        raise AnchorMissing("Expr::for_type")
    asserts = [c for g in [ft] + F.closures_of(ft) for c in g.calls() if "assert_failed" in c.callee()]
    rep.ob(rule, "Expr::for_type reports a type mismatch with an error, not with an assertion", "violated" if asserts else "ok",
           "%d assert_eq!/assert_ne! in the type computation: `x = \"ab\" or \"abc\"` panics the compiler" % len(asserts) if asserts else "", asserts[0].span if asserts else ft.span,
           fn=ft.path, key=rule + "|for_type-asserts")


def path_parts_exist(F, rep, rule="C16.path-shape"):
    """`Path::file_name()` / `file_stem()` answer None for a path that ends in `..` (and `parent()` for an empty one).  The compiler builds
    paths from what an import statement spells, so whether such an answer can be None is a question about the grammar: the non-naming path
    features an import path can really contain (read from path_feature, PEG shadowing included, as for C11.module-identity).  Per unwrap /
    expect of such an answer in crate compiler: safe while `..` cannot be spelled; once the grammar lets it through (`import ..`,
    `import lib/..`) the unwrap is a panic an input reaches."""
    from props import C11 as _c11
    from mir import op_local
    live, shadowed = _c11.path_features(F)
    PARTS = ("std::path::Path::file_name", "std::path::Path::file_stem")
    UNWRAPS = ("core::option::Option::unwrap", "core::option::Option::expect", "core::option::Option::unwrap_unchecked")
    n = 0
    for f in F.crates["compiler"].fns:
        for c in f.calls():
            if not c.matches(PARTS) or not c.dst:
                continue
            der = f.derived([c.dst["l"]])
            uw = [u for u in f.calls() if u.matches(UNWRAPS) and u.args and op_local(u.args[0]) in der]
            if not uw:
                continue
            n += 1
            fshort = mir.short(re.sub(r"::\{closure#\d+\}", "::{closure}", f.path))
            bad = ".." in live
            rep.ob(rule, "%s: the %s of a path built from an import is unwrapped; the grammar cannot spell a path that has none" % (fshort, mir.short(c.callee()).split("::")[-1]),
                   "violated" if bad else "ok",
                   ("path_feature now lets `..` through (live features: %s): `import lib/..` inside a block gives a path without a final name and the unwrap at %s panics"
                    % (live, uw[0].span)) if bad else "live path features: %s, shadowed by ordered choice: %s" % (live, shadowed), c.span, fn=f.path,
                   key="%s|%s|%s" % (rule, fshort, mir.short(c.callee()).split("::")[-1]))
    rep.floor(rule + " unwrapped path parts", n, 1)


def whole_then_parts(F, rep, rule="C16.single-visit"):
    """TypeLayout::eq_complex is the compiler's type compatibility relation; `==` on two list types *is* that relation (<ListType as PartialEq>::eq
    calls eq_complex).  A level of the recursion that first asks `lhs == rhs` of two composite types of the same shape - which walks both
    completely - and on a mismatch descends into their parts again does 2^depth work: `x: [[..[int...]..]...] = [[..["a"]..]]` nested 30 deep
    takes minutes.  Decided by evaluating eq_complex abstractly on same-shaped composite operands (list / list, present optional / present
    optional; parts opaque) with the two kinds of call recorded instead of followed: no path performs the whole-value `==` and a recursive
    eq_complex on a part."""
    import tables
    import absint
    from props import _hashkeys
    from absint import Interp, Variant, Opaque, TRUE, FALSE, NONE, some
    eqc = [f for f in F.crates["compiler"].fns if f.path.endswith("TypeLayout::eq_complex") and f.kind != "Closure"]
    fl = F.adt("compiler::ast::r#type::TypecheckFlags")
    if len(eqc) != 1 or fl is None:
        raise AnchorMissing("TypeLayout::eq_complex / TypecheckFlags")
    eqc = eqc[0]
    TLp = "compiler::ast::r#type::TypeLayout"
    LTp = "compiler::ast::list::ListType"
    tl, lt = F.adt(TLp), F.adt(LTp)
    if tl is None or lt is None:
        raise AnchorMissing("TypeLayout / ListType")
    tln = [v["name"] for v in tl["variants"]]
    ltn = [v["name"] for v in lt["variants"]]

    def owned(v):
        return Variant("alloc::borrow::Cow", 1, "Owned", [v])

    def open_(tag):
        return Variant(TLp, tln.index("List"), "List", [Variant(LTp, ltn.index("Open"), "Open", [owned(Opaque(tag, TLp))])])

    def mixed(tag):
        return Variant(TLp, tln.index("List"), "List", [Variant(LTp, ltn.index("Mixed"), "Mixed", [absint.Tup([owned(Opaque(tag + "0", TLp)), owned(Opaque(tag + "1", TLp))])])])

    def opt(tag):
        return Variant(TLp, tln.index("Optional"), "Optional", [some(owned(Opaque(tag, TLp)))])
    shapes = (("[T...] with [U...]", open_("t"), open_("u")), ("[T, T2] with [U, U2]", mixed("t"), mixed("u")), ("[T, T2] with [U...]", mixed("t"), open_("u")),
              ("T? with U?", opt("t"), opt("u")),
              ("[T...]? with [U...]?", Variant(TLp, tln.index("Optional"), "Optional", [some(owned(open_("t")))]), Variant(TLp, tln.index("Optional"), "Optional", [some(owned(open_("u")))])))

    def part(it, p, fid, fn, t, args):
        # depth 1: eq_complex itself descends into a part; deeper: a PartialEq impl (entered for `lhs == rhs`) came back to eq_complex
        p.events.append(("part" if len(p.stack) <= 1 else "whole-eq", t.get("sp")))
        return Opaque("compatible", "bool")
    n = 0
    for label, a, b in shapes:
        models = dict(tables.MODELS)
        models.update(_hashkeys._iter_models())
        models.update({"compiler::ast::r#type::TypeLayout::eq_complex": part})
        vals = {"executing_class": NONE}
        flags = Variant("compiler::ast::r#type::TypecheckFlags", 0, "TypecheckFlags", [vals.get(x["name"], FALSE) for x in fl["variants"][0]["fields"]])
        it = Interp(F, models=models, max_depth=6, max_paths=2048, loop_bound=4)
        try:
            outs = it.run(eqc, [a, b, flags])
        except (ValueError, KeyError) as e:
            outs = []
        both = []
        for o in outs:
            ev = [e[0] for e in o.events]
            if "whole-eq" in ev and "part" in ev[ev.index("whole-eq"):]:
                both.append([e for e in o.events if e[0] in ("whole-eq", "part")])
        key = "%s|eq_complex|%s" % (rule, label.replace(" ", ""))
        if not outs or it.exhausted:
            rep.ob(rule, "eq_complex on %s: the parts are visited once" % label, "undecided", "not evaluated (paths=%d, exhausted=%s)" % (len(outs), it.exhausted), eqc.span,
                   fn=eqc.path, key=key)
            continue
        n += 1
        rep.ob(rule, "eq_complex on %s: the parts are visited once (no whole-value `==` before the part-wise comparison)" % label, "violated" if both else "ok",
               ("`==` at %s walks both types completely (list types compare through eq_complex itself), then eq_complex at %s descends into the parts again: 2^depth work "
                "on nested types" % (both[0][0][1], [e[1] for e in both[0] if e[0] == "part"][0])) if both else "", eqc.span, fn=eqc.path, key=key)
    rep.floor(rule + " eq_complex shapes evaluated", n, 3)
