"""C13 / C17 — every type the compiler accepts as a map key can be hashed at run time.

`impl Hash for Primitive` has arms that cannot hash (`Map(_) => unimplemented!`) and arms that hash their elements (Vector, Optional), so a key
whose *type* contains a map anywhere inside lists / optionals aborts the interpreter with a Rust panic on the first insert or lookup.  The only
thing that prevents it is the key-type test in Parser::map_type.  Two sibling tables, both read from the code:
  run time      per Primitive variant: `refuses` (the arm only diverges), `elements` (the arm hashes values of type Primitive again), `leaf`;
  compile time  the predicate(s) whose outcome guards the Err return of Parser::map_type, evaluated by abstract interpretation on a universe of
                key types (scalars, map, and map / int wrapped in open lists, fixed-shape lists, optionals, aliases, captured variables).
Rule: a type that is unhashable by the run-time table (map, or an element container of an unhashable type) is rejected by the compile-time test.
"""
import re
import absint
import mir
import rules
import tables
from absint import Interp, Variant, Opaque, Ptr, Tup, Int, some, NONE, TRUE, FALSE
from core import AnchorMissing
from mir import op_local

TL = "compiler::ast::r#type::TypeLayout"
LT = "compiler::ast::list::ListType"
PRIM = "bytecode::variables::primitive::Primitive"
COW = "alloc::borrow::Cow"


def runtime_table(F):
    """variant name -> 'refuses' | 'elements' | 'leaf'"""
    h = F.fn("<%s as core::hash::Hash>::hash" % PRIM)
    if h is None:
        raise AnchorMissing("impl Hash for Primitive")
    prim = F.adt(PRIM)
    names = [v["name"] for v in prim["variants"]]
    sw = None
    for bi, blk in enumerate(h.blocks):
        t = blk["t"]
        if t["k"] == "switch" and t.get("dty") == "isize" and len(t["targets"]) >= len(names) - 2:
            sw = (bi, t)
    if sw is None:
        raise AnchorMissing("variant dispatch in Primitive::hash")
    bi, t = sw
    rets = set(h.return_blocks())
    out = {}

    def hashes_primitives(fn, depth=0, seen=None):
        seen = seen or set()
        if fn is None or fn.path in seen or depth > 3:
            return False
        seen.add(fn.path)
        for c in fn.calls():
            d = c.t["func"].get("def") or ""
            if d.endswith("Hash::hash") or "core::hash::Hash" in (c.t["func"].get("res") or ""):
                ga = " ".join(c.t["func"].get("ga") or []) + " " + (c.t["func"].get("res") or "")
                if PRIM in ga:
                    return True
            g = F.fn(c.callee()) if c.callee().startswith("<bytecode::") or c.callee().startswith("bytecode::") else None
            if g is not None and g.path != h.path and hashes_primitives(g, depth + 1, seen):
                return True
        return False
    for v, tg in t["targets"]:
        if int(v) >= len(names):
            continue
        reach = {b for b in h.reachable(tg, removed_blocks={bi}) if not h.blocks[b].get("cleanup")}
        if not (reach & rets):
            out[names[int(v)]] = "refuses"
            continue
        kind = "leaf"
        for c in h.calls():
            if c.bb not in reach:
                continue
            ga = " ".join(c.t["func"].get("ga") or []) + " " + (c.t["func"].get("res") or "")
            if (c.callee().endswith("Hash>::hash") or c.callee().endswith("Hash::hash")) and PRIM in ga:
                kind = "elements"
            g = F.fn(c.callee())
            if g is not None and g.path != h.path and g.path.startswith("<bytecode::") and hashes_primitives(g):
                kind = "elements"
        out[names[int(v)]] = kind
    return h, out


class Types:
    def __init__(self, F):
        self.F = F
        self.T = tables.Tables(F)
        tl = F.adt(TL)
        lt = F.adt(LT)
        if tl is None or lt is None:
            raise AnchorMissing("TypeLayout / ListType")
        self.tln = [v["name"] for v in tl["variants"]]
        self.ltn = [v["name"] for v in lt["variants"]]

    def owned(self, v):
        return Variant(COW, 1, "Owned", [v])

    def build(self, spec, tag="k"):
        k = spec[0] if isinstance(spec, tuple) else spec
        if not isinstance(spec, tuple):
            if spec == "Map":
                return Variant(TL, self.tln.index("Map"), "Map", [Opaque(tag + ".map")])
            if spec == "Class":
                return Variant(TL, self.tln.index("Class"), "Class", [Opaque(tag + ".class")])
            return self.T.tl_value(spec, tag)
        if k == "Opt":
            return Variant(TL, self.tln.index("Optional"), "Optional", [some(self.owned(self.build(spec[1], tag + ".o")))])
        if k == "Open":
            return Variant(TL, self.tln.index("List"), "List", [Variant(LT, self.ltn.index("Open"), "Open", [self.owned(self.build(spec[1], tag + ".l"))])])
        if k == "Mixed":
            return Variant(TL, self.tln.index("List"), "List", [Variant(LT, self.ltn.index("Mixed"), "Mixed",
                                                                         [Tup([self.owned(self.build(x, tag + ".m%d" % i)) for i, x in enumerate(spec[1])])])])
        if k == "MapOf":
            kv = [self.build(spec[1], tag + ".mk"), self.build(spec[2], tag + ".mv")]     # Box<TypeLayout>: a box is its content
            return Variant(TL, self.tln.index("Map"), "Map", [Variant("compiler::ast::map::MapType", 0, "MapType", kv)])
        if k == "Alias":
            return Variant(TL, self.tln.index("Alias"), "Alias", [Opaque(tag + ".alias-name"), self.owned(self.build(spec[1], tag + ".a"))])
        if k == "Cb":
            return Variant(TL, self.tln.index("CallbackVariable"), "CallbackVariable", [self.build(spec[1], tag + ".c")])
        if k == "ClassWith":
            # a class whose fields have the given types
            ca = self.F.adt("compiler::ast::class::ClassType")
            ia = self.F.adt("compiler::ast::ident::Ident")
            if ca is None or ia is None:
                raise AnchorMissing("ClassType / Ident")
            idents = []
            for i, ft in enumerate(spec[1]):
                fields = []
                for f in ia["variants"][0]["fields"]:
                    if "TypeLayout" in f["ty"] and f["ty"].startswith("core::option::Option<"):
                        fields.append(some(self.owned(self.build(ft, tag + ".f%d" % i))))
                    else:
                        fields.append(Opaque("%s.ident%d.%s" % (tag, i, f["name"])))
                idents.append(Variant("compiler::ast::ident::Ident", 0, ia["variants"][0]["name"], fields))
            cf = [Tup(idents) if f["name"] == "fields" else Opaque("%s.class.%s" % (tag, f["name"])) for f in ca["variants"][0]["fields"]]
            return Variant(TL, self.tln.index("Class"), "Class", [Variant("compiler::ast::class::ClassType", 0, ca["variants"][0]["name"], cf)])
        raise ValueError(spec)


def show(spec):
    if not isinstance(spec, tuple):
        return {"Map": "map[..]", "Class": "SomeClass"}.get(spec, spec.lower())
    k = spec[0]
    if k == "MapOf":
        return "map[%s, %s]" % (show(spec[1]), show(spec[2]))
    if k == "Opt":
        return show(spec[1]) + "?"
    if k == "Open":
        return "[%s...]" % show(spec[1])
    if k == "Mixed":
        return "[%s]" % ", ".join(show(x) for x in spec[1])
    if k == "Alias":
        return "alias(%s)" % show(spec[1])
    if k == "Cb":
        return "captured(%s)" % show(spec[1])
    if k == "ClassWith":
        return "class { %s }" % "; ".join("f%d: %s" % (i, show(x)) for i, x in enumerate(spec[1]))
    return str(spec)


def unhashable(spec, rt):
    """by the run-time table"""
    if not isinstance(spec, tuple):
        return spec == "Map" and rt.get("Map") == "refuses"
    k = spec[0]
    if k in ("Alias", "Cb"):
        return unhashable(spec[1], rt)            # compile-time wrappers only
    if k == "Opt":
        return rt.get("Optional") == "refuses" or (rt.get("Optional") == "elements" and unhashable(spec[1], rt))
    if k == "Open":
        return rt.get("Vector") == "refuses" or (rt.get("Vector") == "elements" and unhashable(spec[1], rt))
    if k == "Mixed":
        return rt.get("Vector") == "refuses" or (rt.get("Vector") == "elements" and any(unhashable(x, rt) for x in spec[1]))
    if k == "ClassWith":
        return rt.get("Object") == "refuses" or (rt.get("Object") == "elements" and any(unhashable(x, rt) for x in spec[1]))
    return False


def universe():
    inner = ["Int", "Str", "Map", ("Open", "Map"), ("Opt", "Map"), ("Open", "Int")]
    u = ["Int", "Str", "Bool", "Float", "BigInt", "Byte", "Class", "Map"]
    for x in inner:
        u += [("Opt", x), ("Open", x), ("Mixed", [x]), ("Mixed", ["Int", x]), ("Alias", x), ("Cb", x)]
    u += [("Open", ("Alias", "Map")), ("Opt", ("Cb", "Map"))]
    u += [("ClassWith", ["Int"]), ("ClassWith", ["Int", "Map"]), ("ClassWith", [("Open", "Map")]), ("Open", ("ClassWith", ["Map"])),
          ("ClassWith", [("ClassWith", ["Map"])]), ("ClassWith", ["Str", ("Opt", "Int")])]
    out, seen = [], set()
    for x in u:
        r = repr(x)
        if r not in seen:
            seen.add(r)
            out.append(x)
    return out


def _iter_models():
    import jumps

    def all_any(is_all):
        def model(it, p, fid, fn, t, args):
            v = jumps.deref_all(it, p, args[0])
            cl = jumps.deref_all(it, p, args[1])
            if not isinstance(v, jumps.SIter) or not isinstance(cl, absint.Closure):
                return NotImplemented
            g = it.lookup_fn(cl.defn)
            if g is None:
                return NotImplemented
            arglists = [[cl, val] for _, val in v.script[v.pos:]]

            def fin(it2, p2, acc):
                vals = [bool(x.v) if isinstance(x, Int) else None for x in acc]
                if None in vals:
                    return Opaque("all/any", "bool")
                return absint.mkbool(all(vals) if is_all else any(vals))
            fin.wants_results = True
            fin.stop_when = (lambda rv: isinstance(rv, Int) and bool(rv.v) != is_all)
            return ("enter_seq", g, arglists, fin)
        return model
    def map_or(it, p, fid, fn, t, args):
        v = args[0]
        if not isinstance(v, Variant) or v.adt not in ("core::result::Result", "core::option::Option"):
            return NotImplemented
        if v.name in ("Ok", "Some"):
            cl = args[2]
            if not isinstance(cl, absint.Closure):
                return NotImplemented
            g = it.lookup_fn(cl.defn)
            if g is None:
                return NotImplemented
            return ("enter", g, [cl, v.fields[0]], None)
        return args[1]
    return {
        "core::result::Result::map_or": map_or,
        "core::option::Option::map_or": map_or,
        "core::slice::<impl [T]>::iter": jumps._slice_iter,
        "core::iter::traits::collect::IntoIterator::into_iter": lambda it, p, fid, fn, t, args: (
            jumps._slice_iter(it, p, fid, fn, t, args) if isinstance(jumps.deref_all(it, p, args[0]), Tup) else (
                jumps.deref_all(it, p, args[0]) if isinstance(jumps.deref_all(it, p, args[0]), jumps.SIter) else NotImplemented)),
        "core::iter::traits::iterator::Iterator::next": jumps._next,
        "core::iter::traits::iterator::Iterator::all": all_any(True),
        "core::iter::traits::iterator::Iterator::any": all_any(False),
    }


def eval_pred(F, fn, value):
    models = dict(tables.MODELS)
    models.update(_iter_models())
    it = Interp(F, models=models, max_depth=10, max_paths=256, loop_bound=8)
    try:
        outs = it.run(fn, [value])
    except (ValueError, KeyError):
        return None
    vals = set()
    for o in outs:
        if o.kind == "return" and isinstance(o.value, Int):
            vals.add(bool(o.value.v))
        else:
            return None
    if it.exhausted or len(vals) != 1:
        return None
    return vals.pop()


def run(F, rep, rule="C13.hashable-keys"):
    h, rt = runtime_table(F)
    refusing = sorted(k for k, v in rt.items() if v == "refuses")
    containers = sorted(k for k, v in rt.items() if v == "elements")
    rep.ob(rule, "run-time table of Primitive::hash", "ok" if ("Map" in rt and len(rt) >= 12) else "undecided",
           "cannot be hashed: %s; hash their elements: %s" % (refusing, containers), h.span, fn=h.path, key=rule + "|runtime-table")
    mt = None
    for f in F.crates["compiler"].fns:
        if f.path.endswith("<impl compiler::parser::Parser>::map_type") or f.path == "compiler::parser::Parser::map_type":
            mt = f
    if mt is None:
        raise AnchorMissing("Parser::map_type")
    # the key type: result of the first Parser::type call; predicates: bool-returning local functions applied to it whose outcome guards an Err return
    tcalls = [c for c in mt.calls() if c.callee().endswith("Parser>::r#type") or c.callee().endswith("Parser::r#type") or c.callee().endswith("::type")]
    if not tcalls:
        raise AnchorMissing("Parser::type call in map_type")
    first = min(tcalls, key=lambda c: c.bb)
    der = mt.derived([first.dst["l"]], through_call=lambda c, idx: True if (c.matches(rules.TRY_BRANCH) or c.callee().endswith("::deref") or c.callee().endswith("as_ref")) else None)
    preds = []
    for c in mt.calls():
        if c.args and op_local(c.args[0]) in der and mt.locals[c.dst["l"]] == "bool":
            g = F.fn(c.callee())
            if g is not None:
                preds.append((c, g))
    rep.floor(rule + " key-type predicates consulted by Parser::map_type", len(preds), 1)
    if not preds:
        rep.ob(rule, "Parser::map_type tests the key type", "violated", "no predicate on the key type guards the construction of the map type", mt.span, fn=mt.path,
               key=rule + "|guard")
        return
    # polarity: which outcome of each predicate leads to the Err return
    T = Types(F)
    n = 0
    bad, undec = [], []
    for spec in universe():
        val = T.build(spec)
        rejected = False
        unknown = False
        for c, g in preds:
            r = eval_pred(F, g, val)
            if r is None:
                unknown = True
                continue
            # does this outcome reach an Err return only?  decide by edge removal on the switch on c.dst
            d = mt.derived([c.dst["l"]])
            sws = [x for x in rules.bool_switches(mt, d) if x[3] is not None]
            if not sws:
                unknown = True
                continue
            removed = set()
            for bb, t_t, f_t, pol in sws:
                taken = t_t if (r == pol) else f_t
                other = f_t if taken == t_t else t_t
                removed.add((bb, other))
            reach = mt.reachable(0, removed_edges=removed)
            oks = [b for b in rules.ok_return_blocks(mt) if b in reach]
            if not oks:
                rejected = True
        n += 1
        want = unhashable(spec, rt)
        if want and not rejected:
            (undec if unknown else bad).append(show(spec))
    rep.ob(rule, "every key type whose values cannot be hashed at run time is rejected by Parser::map_type (%d key types examined)" % n,
           "violated" if bad else ("undecided" if undec else "ok"),
           ("accepted although a value of it reaches %s in Primitive::hash: %s" % ("/".join(refusing), ", ".join("`map[%s, _]`" % b for b in bad))) if bad else
           (("not evaluated: %s" % undec) if undec else "predicates: %s" % sorted({mir.short(g.path) for _, g in preds})),
           mt.span, fn=mt.path, key=rule + "|accepted-unhashable", sample={"accepted_unhashable": bad, "undecided": undec})
    rep.floor(rule + " key types examined", n, 30)



def _self_fields(fn):
    """fields of `self` (argument 1, a reference) that the body projects: {(variant or None, field name)}"""
    out = set()
    def visit(pl):
        if not pl or pl.get("l") != 1:
            return
        variant = None
        for e in pl.get("p", []):
            if e[0] == "downcast":
                variant = e[1]
            elif e[0] == "field":
                out.add((variant, e[2]))
                return
    for bi, si, dst, rv, s_ in fn.assigns():
        for k in ("ref", "raw", "discr", "len"):
            if k in rv and isinstance(rv[k], dict):
                visit(rv[k])
        for o in mir.rvalue_operands(rv):
            visit(mir.op_place(o))
    for c in fn.calls():
        for a in c.args:
            visit(mir.op_place(a))
    return out


def hash_eq_agree(F, rep, rule="C13.hash-eq"):
    """HashMap<Primitive, Primitive> finds a key again only if `a == b` implies `hash(a) == hash(b)` at every moment.  A structural
    necessary condition, per type that has both impls in crate bytecode: hash() reads no field of `self` that eq() does not read - a field
    hash() reads and eq() ignores lets two equal keys (in particular: one key before and after that field changes) land in different buckets."""
    c = F.crates["bytecode"]
    H, E = {}, {}
    for i in c.impls:
        t = i.get("trait") or ""
        ty = mir.strip_generics(i["self"])
        if t == "core::hash::Hash":
            H[ty] = [x for x in i["items"] if x.endswith("::hash")]
        elif t == "core::cmp::PartialEq":
            E[ty] = [x for x in i["items"] if x.endswith("::eq")]
    n = 0
    for ty in sorted(set(H) & set(E)):
        hf = F.fn(H[ty][0]) if H[ty] else None
        ef = F.fn(E[ty][0]) if E[ty] else None
        if hf is None or ef is None:
            rep.ob(rule, "%s: hash() reads only what eq() compares" % mir.short(ty), "undecided", "body of hash or eq not in the facts", None, fn=ty,
                   key="%s|%s" % (rule, mir.short(ty)))
            continue
        n += 1
        hs, es = _self_fields(hf), _self_fields(ef)
        # a per-variant read of eq covers the same field read without a variant in hash and vice versa only when names match exactly
        extra = sorted(f for f in hs if f not in es and (None, f[1]) not in es and not any(g[1] == f[1] for g in es if f[0] is None))
        rep.ob(rule, "%s: hash() reads only what eq() compares" % mir.short(ty), "violated" if extra else "ok",
               ("hash() reads %s, eq() compares %s: a key whose %s changes (or two keys eq() calls equal) is filed under a different hash and a map "
                "no longer finds it" % (sorted(x[1] for x in hs), sorted(x[1] for x in es), "/".join(x[1] for x in extra))) if extra
               else "hash reads %s; eq compares %s" % (sorted(x[1] for x in hs), sorted(x[1] for x in es)), hf.span, fn=hf.path,
               key="%s|%s" % (rule, mir.short(ty)))
    rep.floor(rule + " types with both Hash and PartialEq", n, 6)
    signed_zero(F, rep, rule)
    # stability: the hash of a filed key must not change while it sits in the table.  A hash() that reads through a GcCell hashes state that
    # every alias of the value can still change.
    m = 0
    for ty in sorted(H):
        hf = F.fn(H[ty][0]) if H[ty] else None
        if hf is None:
            continue
        m += 1
        borrows = [c_ for c_ in hf.calls() if c_.matches(("gc::GcCell<T>::borrow", "gc::GcCell::<T>::borrow", "gc::GcCell<T>::borrow_mut", "gc::GcCell::<T>::borrow_mut"))]
        # only a borrow whose *contents* are fed to Hash::hash counts; `&*cell.borrow() as *const _ as usize` hashes the address (identity)
        guards = {c_.dst["l"] for c_ in borrows}
        cells = []
        for hc in hf.calls():
            if not hc.callee().endswith("::hash") or not hc.args:
                continue
            seen, work = set(), [op_local(hc.args[0])]
            while work:
                l = work.pop()
                if l is None or l in seen:
                    continue
                seen.add(l)
                if l in guards:
                    cells.append([b for b in borrows if b.dst["l"] == l][0])
                    break
                for d in rules.defs_of(hf, l):
                    if d[0] == "assign":
                        rv = d[4]
                        pl = mir.op_place(rv["use"]) if "use" in rv else rv.get("ref")     # casts are not followed: an address is not the contents
                        if pl:
                            work.append(pl["l"])
                    elif d[4].matches(("core::ops::deref::Deref::deref",)) and d[4].args:
                        work.append(op_local(d[4].args[0]))
        rep.ob(rule, "%s: hash() does not read state that an alias of the key can change" % mir.short(ty), "violated" if cells else "ok",
               ("hash() borrows a GcCell at %s: the contents are shared with every alias of the value, so `m[k] = v` followed by a mutation of `k` "
                "leaves the entry filed under a stale hash" % cells[0].span) if cells else "", hf.span, fn=hf.path,
               key="%s|stable|%s" % (rule, mir.short(ty)))
    rep.floor(rule + " Hash bodies examined", m, 7)



def signed_zero(F, rep, rule="C13.hash-eq"):
    """`0.0 == -0.0` (the derived eq of Primitive compares floats with ==), so as map keys they are one key: hash() must feed the hasher the
    same values for both.  <Primitive as Hash>::hash is evaluated abstractly on Float(0.0), Float(-0.0) (must agree) and on Float(1.5),
    Float(-1.5) (must differ: the rule is not blind), recording what reaches Hash::hash."""
    import struct
    import absint
    from absint import Interp, Flt, Int, Opaque, Variant, Ptr
    PRIM = "bytecode::variables::primitive::Primitive"
    hf = None
    for i in F.crates["bytecode"].impls:
        if (i.get("trait") or "") == "core::hash::Hash" and mir.strip_generics(i["self"]) == PRIM:
            hf = F.fn([x for x in i["items"] if x.endswith("::hash")][0])
    a = F.adt(PRIM)
    if hf is None or a is None:
        raise AnchorMissing("impl Hash for Primitive")
    names = [v["name"] for v in a["variants"]]

    def full(it, p, v):
        k = 0
        while isinstance(v, Ptr) and k < 8:
            v = it.deref(p, v)
            k += 1
        return v

    def to_bits(it, p, fid, fn, t, args):
        v = full(it, p, args[0])
        if isinstance(v, Flt):
            return Int(struct.unpack("<Q", struct.pack("<d", v.v))[0], "u64")
        return NotImplemented

    def hashed(it, p, fid, fn, t, args):
        v = full(it, p, args[0])
        p.events.append(("hashed", repr(v)))
        return absint.Tup([])
    models = dict(absint.DEFAULT_MODELS)
    models.update({"core::f64::<impl f64>::to_bits": to_bits, "core::hash::Hash::hash": hashed})

    def feed(x):
        it = Interp(F, models=models, max_depth=6, max_paths=64)
        outs = it.run(hf, [Variant(PRIM, names.index("Float"), "Float", [Flt(x)]), Opaque("hasher")])
        seqs = {tuple(e[1] for e in o.events if e[0] == "hashed") for o in outs if o.kind == "return"}
        if it.exhausted or len(seqs) != 1 or any(o.kind != "return" for o in outs):
            return None
        return seqs.pop()
    z, nz, a1, a2 = feed(0.0), feed(-0.0), feed(1.5), feed(-1.5)
    if None in (z, nz, a1, a2) or not z or a1 == a2:
        rep.ob(rule, "0.0 and -0.0 are one map key (equal by ==): they hash alike", "undecided",
               "evaluation of hash() on floats: %s / %s / %s / %s" % (z, nz, a1, a2), hf.span, fn=hf.path, key=rule + "|signed-zero")
        return
    rep.ob(rule, "0.0 and -0.0 are one map key (equal by ==): they hash alike", "ok" if z == nz else "violated",
           "" if z == nz else "hash(0.0) feeds %s, hash(-0.0) feeds %s: `m[0.0] = 1` / `m.contains_key(0.0 * -1.0)` is false although the keys are ==" % (z, nz),
           hf.span, fn=hf.path, key=rule + "|signed-zero")
