"""C19 — foreign calls: operand stack passed unchanged, result pushed, errors stop the program.

Pass-through chain decided on MIR (DESIGN.md §5 C19):
  call_lib:  JumpRequest.arguments <- clone(Ctx::get_local_operating_stack())  (no other call on the way),
             snapshot taken before clear_stack; destination = Library{first arg, second arg}
  process_jump_request (Library arm): process_library_jump_request(dest.lib_name, dest.func_name, &request.arguments)
  process_library_jump_request: symbol(args) with args the parameter, result returned verbatim;
             Library::new / Library::get failures propagate (with_context + ?)
  Function::run (JumpRequest arm): Err / FFIError => Err return, no further instruction handler reachable;
             Value(v) => Ctx::push(v) on every path to the next instruction.
"""
import mir
import rules
from mir import op_local, op_const, op_place
from core import AnchorMissing

CLONE = "core::clone::Clone::clone"
DEREF = "core::ops::deref::Deref::deref"
PASS = {CLONE, DEREF, "core::ops::deref::DerefMut::deref_mut", "core::borrow::Borrow::borrow",
        "core::convert::AsRef::as_ref", "alloc::vec::Vec::as_slice"}


def need(F, path):
    f = F.fn(path)
    if f is None:
        raise AnchorMissing(path)
    return f


def agg_sites(fn, adt, variant=None):
    out = []
    for bi, si, dst, rv, s in fn.assigns():
        if "agg" in rv and rv["agg"].get("adt") == adt and (variant is None or rv["agg"]["v"] == variant):
            out.append((bi, si, dst, rv, s))
    return out


def field_index(F, adt_path, variant, field):
    a = F.adt(adt_path)
    if a is None:
        raise AnchorMissing(adt_path)
    for v in a["variants"]:
        if v["name"] == variant:
            for i, f in enumerate(v["fields"]):
                if f["name"] == field:
                    return i
    raise AnchorMissing("%s::%s.%s" % (adt_path, variant, field))


def describe(fn, origins):
    by_bb = {c.bb: c for c in fn.calls()}
    out = []
    for o in sorted(origins, key=str):
        if isinstance(o, tuple) and len(o) == 2 and isinstance(o[0], tuple):
            o, fields = o
        else:
            fields = ()
        if o[0] == "call":
            d = "call " + mir.short(by_bb[o[1]].callee())
        elif o[0] == "arg":
            d = "param " + fn.local_name(o[1])
        else:
            d = "%s" % (o,)
        if fields:
            d += "." + ".".join(fields)
        out.append(d)
    return out


def names_are_not_taken_apart(F, rep, rule="C19.destination"):
    """The library and the function a `call_lib` names reach the loader as the instruction spelled them.  On the way from the handler to
    Library::new / Library::get (call_lib, Program::process_jump_request, process_library_jump_request) no text is cut at a separator: a path may
    contain any character a `path#symbol` encoding would use (`/x/c#/lib.so`), and a cut at the first one asks the loader for another file."""
    CUTS = ("::split_once", "::rsplit_once", "::split", "::rsplit", "::splitn", "::rsplitn", "::find", "::rfind", "::split_at", "::split_terminator")
    fns = [g for g in F.crates["bytecode"].fns if g.path.endswith(("implementations::call_lib", "Program::process_jump_request", "Program::process_library_jump_request"))
           or any(g.path.startswith(p_ + "::{closure") for p_ in ("bytecode::instruction::implementations::call_lib", "bytecode::interpreter::Program::process_jump_request",
                                                                   "bytecode::interpreter::Program::process_library_jump_request"))]
    rep.floor(rule + " functions between call_lib and the loader", len([g for g in fns if g.kind != "Closure"]), 3)
    for g in sorted(fns, key=lambda x: x.path):
        if g.kind == "Closure":
            continue
        bodies = [g] + F.closures_of(g)
        cuts = sorted({mir.short(c.callee()) for b in bodies for c in b.calls() if mir.strip_generics(c.callee()).endswith(CUTS) and "str" in c.callee()})
        rep.ob(rule, "%s cuts no text at a separator" % mir.short(g.path), "violated" if cuts else "ok",
               ("calls %s: a library path that contains the separator (`/x/c#/libdemo.so`) is cut short and another file - or none - is loaded" % cuts) if cuts else "",
               g.span, fn=g.path, key="%s|uncut|%s" % (rule, mir.short(g.path)))


def run(ctx, rep):
    F = ctx.facts("default", ["bytecode"])
    rep.explain("C19: R-FLOW pass-through chain over MIR from the operand stack to the foreign function's argument slice and from "
                "its return value to the operand stack; R-DOM no-instruction-after-failure; error discipline on Library::new/get.")
    rep.assume("the ABI of the loaded symbol (`fn(&[Primitive]) -> ReturnValue`) is an unsafe trust boundary")
    rep.assume("libloading::Library::{new,get} report a missing library / symbol as Err")
    names_are_not_taken_apart(F, rep)

    # ---- (a) call_lib -----------------------------------------------------
    f = need(F, "bytecode::instruction::implementations::call_lib")
    JR = "bytecode::instruction::JumpRequest"
    sites = agg_sites(f, JR)
    rep.floor("C19.call_lib JumpRequest constructions", len(sites), 1)
    ai = field_index(F, JR, "JumpRequest", "arguments")
    di = field_index(F, JR, "JumpRequest", "destination")
    getstack = f.calls_to("bytecode::context::Ctx::get_local_operating_stack")
    for bi, si, dst, rv, s in sites:
        op = rv["ops"][ai]
        o = rules.origins(f, op_local(op), transparent=PASS) if op_local(op) is not None else {("const",)}
        want = {("call", c.bb) for c in getstack}
        ok = bool(want) and o == want and len(want) == 1
        rep.ob("C19.args-pass-through", "call_lib: JumpRequest.arguments <- clone(operand stack)",
               "ok" if ok else "violated",
               "origins of the arguments field (looking through clone/deref only): %s" % describe(f, o), s.get("sp"), fn=f.path)
        # destination
        dop = rv["ops"][di]
        dl = op_local(dop)
        dsites = [x for x in agg_sites(f, "bytecode::instruction::JumpRequestDestination") if x[2]["l"] == rules.place_base_chain(f, dl)]
        if len(dsites) != 1 or dsites[0][3]["agg"]["v"] != "Library":
            rep.ob("C19.destination", "call_lib: destination is Library{..}", "violated" if dsites else "undecided",
                   "destination built as %s" % [x[3]["agg"]["v"] for x in dsites], s.get("sp"), fn=f.path)
        else:
            drv = dsites[0][3]
            li = field_index(F, "bytecode::instruction::JumpRequestDestination", "Library", "lib_name")
            fi = field_index(F, "bytecode::instruction::JumpRequestDestination", "Library", "func_name")
            by_bb = {c.bb: c for c in f.calls()}

            def src(op):
                oo = rules.origins(f, op_local(op), transparent=PASS)
                names = []
                for x in oo:
                    if x[0] == "call":
                        c = by_bb[x[1]]
                        if c.matches("core::slice::<impl [T]>::first"):
                            names.append("args[0]")
                        elif c.matches("core::slice::<impl [T]>::get"):
                            k = op_const(c.args[1])
                            names.append("args[%s]" % (k.get("int") if k else "?"))
                        else:
                            names.append(mir.short(c.callee()))
                    else:
                        names.append(str(x))
                return sorted(names)
            l_src, f_src = src(drv["ops"][li]), src(drv["ops"][fi])
            rep.ob("C19.destination", "call_lib: lib_name <- args[0], func_name <- args[1]",
                   "ok" if l_src == ["args[0]"] and f_src == ["args[1]"] else "violated",
                   "lib_name<-%s func_name<-%s" % (l_src, f_src), dsites[0][4].get("sp"), fn=f.path)
    # snapshot before clear
    clears = f.calls_to("bytecode::context::Ctx::clear_stack") + f.calls_to("bytecode::context::Ctx::clear_and_set_stack") \
        + f.calls_to("bytecode::context::Ctx::pop") + f.calls_to("bytecode::context::Ctx::ref_clear_local_operating_stack")
    clones = [c for c in f.calls_to(CLONE) if any(o in {("call", g.bb) for g in getstack}
                                                  for o in rules.origins(f, op_local(c.args[0]), transparent=PASS))]
    for c in clears:
        ok = bool(clones) and rules.call_dominates(f, clones, c.bb)
        rep.ob("C19.snapshot-before-clear", "call_lib: operand stack cloned before %s" % mir.short(c.callee()),
               "ok" if ok else "violated", "", c.span, fn=f.path)
    # the accessor really is the operand stack
    g = need(F, "bytecode::context::Ctx::get_local_operating_stack")
    paths = rules.trace_paths(g, 0)
    okacc = not g.calls() and paths == {(("arg", 1), ("stack",))}
    rep.ob("C19.accessor", "Ctx::get_local_operating_stack returns &self.stack", "ok" if okacc else "violated",
           "returns %s" % describe(g, paths), g.span, fn=g.path)
    # signalled
    sig = f.calls_to("bytecode::context::Ctx::signal")
    ies = agg_sites(f, "bytecode::function::InstructionExitState", "JumpRequest")
    ok = len(sig) >= 1 and len(ies) >= 1 and all(any(rules.place_base_chain(f, op_local(c.args[1])) == x[2]["l"] for x in ies) for c in sig)
    # every Ok return is preceded by the signal
    okret = all(rules.call_dominates(f, sig, bi) for bi, si, dst, rv, s in agg_sites(f, "core::result::Result", "Ok") if dst["l"] == 0)
    rep.ob("C19.signal", "call_lib: the request is signalled on every Ok path", "ok" if ok and okret else "violated", "", f.span, fn=f.path)

    # ---- (c) process_library_jump_request: roles of its parameters --------------------------------------------
    q = need(F, "bytecode::interpreter::Program::process_library_jump_request")
    CTXT = {"anyhow::Context::context", "anyhow::Context::with_context", rules.TRY_BRANCH}
    KEYPASS = PASS | {"alloc::string::ToString::to_string", "alloc::borrow::ToOwned::to_owned", "alloc::string::String::as_str",
                      "core::convert::Into::into", "core::convert::From::from"}
    ENTRY = {"std::collections::hash::map::OccupiedEntry::into_mut", "std::collections::hash::map::VacantEntry::insert",
             "std::collections::hash::map::Entry::or_insert", "std::collections::hash::map::Entry::or_insert_with",
             "core::option::Option::unwrap", "core::option::Option::expect"}
    inputs = q.d.get("inputs") or []
    args_idx = [i + 1 for i, ty in enumerate(inputs) if "[bytecode::variables::primitive::Primitive]" in ty]
    if len(args_idx) != 1:
        raise AnchorMissing("the `args: &[Primitive]` parameter of process_library_jump_request")
    args_idx = args_idx[0]
    news = q.calls_to("libloading::safe::Library::new")
    gets = q.calls_to("libloading::safe::Library::get")
    rep.floor("C19.Library::new/get calls", len(news) + len(gets), 2)
    lib_roots = set()
    for c in news:
        lib_roots |= {o for (o, fs) in rules.trace_paths(q, op_local(c.args[0]), transparent=KEYPASS)}
    func_roots = set()
    for c in gets:
        func_roots |= {o for (o, fs) in rules.trace_paths(q, op_local(c.args[1]), transparent=KEYPASS | {"alloc::string::String::as_bytes", "core::str::<impl str>::as_bytes"})}
    lib_idx = [o[1] for o in lib_roots if o[0] == "arg"]
    func_idx = [o[1] for o in func_roots if o[0] == "arg"]
    ok_roles = len(lib_roots) == 1 and len(lib_idx) == 1 and len(func_roots) == 1 and len(func_idx) == 1 and lib_idx != func_idx
    rep.ob("C19.symbol", "the library is opened by the unmodified library-name parameter and the symbol looked up by the unmodified function-name parameter",
           "ok" if ok_roles else "violated", "Library::new argument derives from %s; Library::get symbol from %s" % (describe(q, lib_roots), describe(q, func_roots)),
           q.span, fn=q.path)
    # the handle used for the lookup: freshly opened, or taken from a table keyed by the same unmodified name
    for g in gets:
        ho = rules.origin_calls(q, op_local(g.args[0]), transparent=PASS | CTXT | ENTRY)
        bad = []
        for h in ho:
            if h.matches("libloading::safe::Library::new"):
                continue
            if h.matches(("std::collections::hash::map::HashMap::entry", "std::collections::hash::map::HashMap::get", "std::collections::hash::map::HashMap::get_mut")):
                kt = rules.trace_paths(q, op_local(h.args[1]), transparent=KEYPASS)
                kroots = {o for (o, fs) in kt}
                if kroots != {("arg", lib_idx[0])} if lib_idx else True:
                    bad.append("handle table keyed by %s, not by the library name itself" % describe(q, kroots))
                continue
            bad.append("handle comes from %s" % mir.short(h.callee()))
        rep.ob("C19.symbol", "the symbol is looked up in the library named by the request", "violated" if bad or not ho else "ok",
               "; ".join(bad), g.span, fn=q.path, key="C19.symbol|Program::process_library_jump_request|library-identity")
    ptr_calls = [c for c in q.calls() if c.is_ptr]
    rep.floor("C19.foreign fn-pointer calls", len(ptr_calls), 1)
    for c in ptr_calls:
        tp = rules.trace_paths(q, op_local(c.args[0]), transparent=PASS) if c.args else set()
        rep.ob("C19.args-pass-through", "process_library_jump_request: foreign fn receives the `args` parameter",
               "ok" if len(c.args) == 1 and tp == {(("arg", args_idx), ())} else "violated", "argument derives from %s" % describe(q, tp), c.span, fn=q.path)
        fo = rules.origin_calls(q, op_local(c.t["func"]["ptr"]), transparent=PASS | CTXT)
        oksym = len(fo) == 1 and fo[0].matches("libloading::safe::Library::get")
        rep.ob("C19.symbol", "the function called is the symbol Library::get returned", "ok" if oksym else "violated",
               str([mir.short(x.callee()) for x in fo]), c.span, fn=q.path, key="C19.symbol|Program::process_library_jump_request|fn-is-symbol")
        oks = [x for x in agg_sites(q, "core::result::Result", "Ok") if x[2]["l"] == 0]
        good = bool(oks) and all(rules.origins(q, op_local(x[3]["ops"][0]), transparent=set()) == {("call", c.bb)} for x in oks)
        rep.ob("C19.result-pass-through", "process_library_jump_request returns Ok(<foreign result>) verbatim",
               "ok" if good else "violated", "", c.span, fn=q.path)
        # once the foreign function has returned, its result is handed back whatever it is: no failure exit after the call
        after = q.reachable(c.target) if c.target is not None else set()
        fails = [x for x in agg_sites(q, "core::result::Result", "Err") if x[2]["l"] == 0 and x[0] in after]
        fails += [x for x in q.calls_to("core::ops::try_trait::FromResidual::from_residual") if x.bb in after and x.dst["l"] == 0]
        rep.ob("C19.result-pass-through", "every return after the foreign call is Ok(<its result>): a result of any of the six kinds (value, no value, error) is passed on",
               "violated" if fails else "ok", "a failure exit follows the foreign call: some results are rejected instead of pushed" if fails else "", c.span, fn=q.path,
               key="C19.result-pass-through|Program::process_library_jump_request|no-failure-after-call")
    for pat in ("libloading::safe::Library::new", "libloading::safe::Library::get"):
        for c in q.calls_to(pat):
            der = q.derived([c.dst["l"]], through_call=lambda cc, idx: True if cc.matches(("anyhow::Context::context", "anyhow::Context::with_context")) else None)
            tries = [t for t in q.calls_to(rules.TRY_BRANCH) if op_local(t.args[0]) in der]
            ok = False
            if len(tries) == 1:
                sw = rules.find_discr_switch(q, tries[0].target, tries[0].dst["l"])
                if sw is not None:
                    brk = dict(q.term(sw)["targets"]).get("1")
                    bad = rules.blocks_calling(q, lambda cc: cc.is_ptr, [brk])
                    fr = [cc for cc in q.calls_to(rules.FROM_RESIDUAL) if cc.bb in q.reachable(brk) and cc.dst["l"] == 0]
                    ok = not bad and bool(fr)
            rep.ob("C19.error-discipline", "%s failure propagates as Err and the foreign function is not called" % mir.short(pat),
                   "ok" if ok else "violated", "", c.span, fn=q.path)

    # ---- (b) process_jump_request, Library arm ------------------------------------------------------------------
    p = need(F, "bytecode::interpreter::Program::process_jump_request")
    lib_calls = p.calls_to("bytecode::interpreter::Program::process_library_jump_request")
    rep.floor("C19.process_library_jump_request call sites", len(lib_calls), 1)
    for c in lib_calls:
        tp = [rules.trace_paths(p, op_local(a), transparent=PASS) if op_local(a) is not None else set() for a in c.args]
        ok2 = tp[args_idx - 1] == {(("arg", 2), ("arguments",))}
        rep.ob("C19.args-pass-through", "process_jump_request: the argument slice <- &request.arguments",
               "ok" if ok2 else "violated", "derives from %s" % describe(p, tp[args_idx - 1]), c.span, fn=p.path)
        if lib_idx and func_idx:
            ok0 = tp[lib_idx[0] - 1] == {(("arg", 2), ("destination", "@Library", "lib_name"))}
            ok1 = tp[func_idx[0] - 1] == {(("arg", 2), ("destination", "@Library", "func_name"))}
            rep.ob("C19.destination", "process_jump_request: lib/func names <- request.destination.Library",
                   "ok" if ok0 and ok1 else "violated", "lib<-%s func<-%s" % (describe(p, tp[lib_idx[0] - 1]), describe(p, tp[func_idx[0] - 1])), c.span, fn=p.path)
        o = rules.origins(p, 0, transparent=PASS | {"anyhow::Context::context", "anyhow::Context::with_context"})
        rep.ob("C19.result-pass-through", "process_jump_request: Library arm returns the call's result",
               "ok" if ("call", c.bb) in o else "violated", "", c.span, fn=p.path)
    callers = F.callers_of("bytecode::interpreter::Program::process_library_jump_request")
    okc = {x[0].path for x in callers} == {p.path}
    rep.ob("C19.callers", "process_library_jump_request is called only from process_jump_request", "ok" if okc else "violated",
           "callers=%s" % sorted({x[0].path for x in callers}), p.span, fn=p.path)

    # ---- (d) Function::run, JumpRequest arm --------------------------------------
    r = need(F, "bytecode::function::Function::run")
    handler = lambda cc: (cc.callee() or "").startswith("bytecode::instruction::implementations::")
    n_handlers = len([c for c in r.calls() if handler(c)])
    rep.floor("C19.instruction handler calls in Function::run", n_handlers, 40)
    fncalls = [c for c in r.calls_to("core::ops::function::Fn::call")]
    # the callback call whose argument is the JumpRequest payload of the exit state
    jr_calls = []
    for c in fncalls:
        tp = set()
        if len(c.args) > 1:
            # the argument tuple of Fn::call: look into its single component
            for d in rules.defs_of(r, op_local(c.args[1])):
                if d[0] == "assign" and "agg" in d[4] and d[4]["agg"]["k"] == "tuple":
                    for o in d[4]["ops"]:
                        if op_local(o) is not None:
                            tp |= rules.trace_paths(r, op_local(o), transparent=PASS)
        if any("@JumpRequest" in fs for (_, fs) in tp):
            jr_calls.append(c)
    rep.floor("C19.jump_callback(JumpRequest) sites", len(jr_calls), 1)
    for c in jr_calls:
        te = rules.try_edges(r, c)
        if te is None:
            rep.ob("C19.error-stops", "Function::run: jump_callback result consumed by `?`", "violated",
                   "the Result of the jump callback is not propagated with `?`", c.span, fn=r.path)
            continue
        cont, brk, sw = te
        bad = rules.blocks_calling(r, handler, [brk])
        rep.ob("C19.error-stops", "Function::run: Err from the jump callback => no further instruction handler reachable",
               "ok" if not bad else "violated", "reachable handlers: %s" % [mir.short(b.callee()) for b in bad[:3]], c.span, fn=r.path)
        # FFIError edge
        # result local: the Continue payload
        res_locals = set()
        for s in r.blocks[cont]["s"]:
            if "d" in s and "use" in s["rv"]:
                pl = op_place(s["rv"]["use"])
                if pl and (pl["l"] == rules.find_try_dst(r, c) or pl["l"] in res_locals):
                    res_locals.add(s["d"]["l"])
        sws = rules.discr_switches(r, res_locals)
        ffi_idx = None
        a = F.adt("bytecode::function::ReturnValue")
        for i, v in enumerate(a["variants"]):
            if v["name"] == "FFIError":
                ffi_idx = str(i)
        ffi_sw = [x for x in sws if ffi_idx in x[2] and x[0] in r.reachable(cont)]
        # keep only tests not themselves reached through the FFIError edge of another test
        # (drop elaboration re-tests the discriminant on the error path)
        keep = []
        for x in ffi_sw:
            others = {y[2][ffi_idx] for y in ffi_sw if y is not x}
            if x[0] in r.reachable(cont, removed_blocks=others):
                keep.append(x)
        ffi_sw = keep
        if not ffi_sw:
            rep.ob("C19.ffi-error-stops", "Function::run: FFIError result is tested", "violated",
                   "no discriminant test for ReturnValue::FFIError on the callback's result", c.span, fn=r.path)
        # no way out of Function::run with the callback's result before that test: with the passing (not-FFIError) edges of the test taken away,
        # no Ok return is reachable from the point where the result arrives - a shortcut that hands the result to the caller untested would
        # turn a foreign error into an ordinary return value
        if ffi_sw:
            passing = set()
            for (bb, base, targets, otherwise) in ffi_sw:
                for v_, tg in targets.items():
                    if v_ != ffi_idx:
                        passing.add((bb, tg))
                passing.add((bb, otherwise))
                passing.discard((bb, targets[ffi_idx]))
            reach_untested = r.reachable(cont, removed_edges=passing)
            early = [b for b in rules.ok_return_blocks(r) if b in reach_untested]
            rep.ob("C19.ffi-error-stops", "Function::run: no Ok return hands the callback's result on before the FFIError test",
                   "violated" if early else "ok", ("Ok return(s) in bb %s are reachable from the arrival of the result without passing the test: a foreign "
                                                  "error leaves the function as an ordinary value" % early) if early else "", c.span, fn=r.path,
                   key="C19.ffi-error-stops|no-early-ok")
        for (bb, base, targets, otherwise) in ffi_sw:
            tgt = targets[ffi_idx]
            bad = rules.blocks_calling(r, lambda cc: handler(cc) or cc.matches("bytecode::context::Ctx::push"), [tgt])
            errs = [x for x in agg_sites(r, "core::result::Result", "Err") if x[2]["l"] == 0 and x[0] in r.reachable(tgt)]
            # message is carried
            carries = False
            for x in errs:
                o = rules.origin_calls(r, op_local(x[3]["ops"][0]))
                carries = carries or any(cc.matches("anyhow::__private::format_err") for cc in o)
            rep.ob("C19.ffi-error-stops", "Function::run: FFIError => Err(message), nothing else runs",
                   "ok" if not bad and errs and carries else "violated",
                   "handlers/push reachable: %s; Err constructions: %d" % ([mir.short(b.callee()) for b in bad[:3]], len(errs)),
                   r.term(bb).get("sp"), fn=r.path)
            # value pushed
            start = otherwise
            gets = [g for g in r.calls_to("bytecode::function::ReturnValue::get") if g.bb in r.reachable(start) and
                    set(rules.chain_locals(r, op_local(g.args[0]))) & (res_locals | {base})]
            if len(gets) != 1:
                rep.ob("C19.result-pushed", "Function::run: ReturnValue::get(result)", "violated" if not gets else "undecided",
                       "expected one ReturnValue::get on the callback result, found %d" % len(gets), c.span, fn=r.path)
                continue
            g = gets[0]
            sw2 = rules.find_discr_switch(r, g.target, g.dst["l"])
            pushes = [pc for pc in r.calls_to("bytecode::context::Ctx::push")
                      if ("call", g.bb) in rules.origins(r, op_local(pc.args[1]), transparent=set())]
            ok = False
            if sw2 is not None and pushes:
                some_t = dict(r.term(sw2)["targets"]).get("1")
                nxt = r.calls_to("bytecode::context::Ctx::clear_signal")
                # every path from the Some edge to the end of the iteration passes the push
                reach_wo = r.reachable(some_t, removed_blocks={pc.bb for pc in pushes})
                ok = some_t is not None and not any(n.bb in reach_wo for n in nxt) and bool(nxt)
            rep.ob("C19.result-pushed", "Function::run: Some(value) from the foreign call is pushed before the next instruction",
                   "ok" if ok else "violated", "", g.span, fn=r.path)
    # ReturnValue::get
    rg = need(F, "bytecode::function::ReturnValue::get")
    somes = [x for x in agg_sites(rg, "core::option::Option", "Some") if x[2]["l"] == 0]
    okget = False
    if len(somes) == 1:
        tp = rules.trace_paths(rg, op_local(somes[0][3]["ops"][0]), transparent=set())
        okget = tp == {(("arg", 1), ("@Value", "0"))}
    rep.ob("C19.result-pass-through", "ReturnValue::get: Value(v) => Some(v)", "ok" if okget else "violated",
           "", rg.span, fn=rg.path)
    any_symbol_name_is_handed_on(ctx, rep)


def any_symbol_name_is_handed_on(ctx, rep, rule="C19.symbol"):
    """`call_lib LIB NAME` calls the function NAME of LIB - whatever NAME is: an exported symbol is an arbitrary byte string (`text.join` through
    #[export_name], legacy-mangled Rust names with `$` and `..`, non-ASCII names).  The handler is evaluated abstractly on concrete argument pairs
    with such names (std's `str::chars`, `char::is_ascii_*`, `str::is_empty`, iterator `all` / `any` on known text are modelled): with two
    arguments present every path succeeds and signals the jump request; a path that fails on the spelling of the name means the named function
    is never called."""
    import jumps
    import absint
    from props import _opstack, _hashkeys
    from absint import Int, Str, Tup, Ptr
    F = ctx.facts("default", ["bytecode"])
    fn = F.fn("bytecode::instruction::implementations::call_lib")
    if fn is None:
        raise AnchorMissing("call_lib handler")

    def deref(it, p, v):
        k = 0
        while isinstance(v, Ptr) and k < 6:
            v = it.deref(p, v)
            k += 1
        return v

    def chars(it, p, fid, f, t, a):
        x = deref(it, p, a[0])
        if not isinstance(x, Str):
            return NotImplemented
        return jumps._slice_iter(it, p, fid, f, t, [Tup([Int(ord(ch), "char") for ch in x.s])])

    def char_pred(fun):
        def model(it, p, fid, f, t, a):
            x = deref(it, p, a[0])
            return absint.mkbool(fun(chr(x.v))) if isinstance(x, Int) else NotImplemented
        return model

    def is_empty(it, p, fid, f, t, a):
        x = deref(it, p, a[0])
        return absint.mkbool(x.s == "") if isinstance(x, Str) else NotImplemented
    asc = lambda c: ord(c) < 128
    extra = dict(_hashkeys._iter_models())
    extra.update({"core::str::<impl str>::chars": chars, "core::str::<impl str>::is_empty": is_empty, "alloc::string::String::is_empty": is_empty,
                  "core::char::methods::<impl char>::is_ascii_alphanumeric": char_pred(lambda c: asc(c) and c.isalnum()),
                  "core::char::methods::<impl char>::is_ascii_alphabetic": char_pred(lambda c: asc(c) and c.isalpha()),
                  "core::char::methods::<impl char>::is_ascii_digit": char_pred(lambda c: asc(c) and c.isdigit()),
                  "core::char::methods::<impl char>::is_alphanumeric": char_pred(lambda c: c.isalnum()),
                  "core::char::methods::<impl char>::is_ascii": char_pred(asc),
                  "core::char::methods::<impl char>::is_whitespace": char_pred(lambda c: c.isspace())})
    # the iteration over the instruction's own arguments stays _opstack's model
    extra.pop("core::slice::<impl [T]>::iter", None)
    extra.pop("core::iter::traits::iterator::Iterator::next", None)
    n = 0
    for name in ("adder", "text.join", "_ZN4core3fmt5write17h$LT$..$GT$E", "n\u00e4me", "a b"):
        outs, ex = _opstack.handler_outcomes(F, fn, 1, ("./libdemo.so", name), extra_models=extra, decided_only=True)
        kinds = {o[0] for o in outs}
        key = "%s|call_lib|name|%s" % (rule, name.encode("ascii", "backslashreplace").decode())
        label = "call_lib with the symbol name `%s` signals the call" % name
        if ex or kinds & {"data-dependent", "cutoff"} or not outs:
            rep.ob(rule, label, "undecided", "outcomes %s" % sorted(map(str, outs))[:3], fn.span, fn=fn.path, key=key)
            continue
        n += 1
        good = kinds == {"Ok"} and all(o[1] == "JumpRequest" for o in outs)
        rep.ob(rule, label, "ok" if good else "violated",
               "" if good else "outcomes %s: the handler refuses the name by its spelling, the function the library exports under it is never called" % sorted(map(str, outs))[:3],
               fn.span, fn=fn.path, key=key)
    rep.floor(rule + " symbol names evaluated", n, 4)
