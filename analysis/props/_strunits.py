"""C14 — one unit for string positions.

Every string built-in that produces or consumes a position (len, substring, index_of, insert, delete, split) works on the
underlying String in *byte* offsets (String::len, str::find, Index<Range>, insert_str, split_at ...).  An operation that walks
`chars()` and counts (nth / position / count / enumerate / skip / take on a Chars iterator) measures in *characters*: on
multi-byte text its positions disagree with every byte-based built-in (s[s.index_of(x)] is no longer x).  The rule lists every
char-counting site in the code that handles program strings.
"""
import re
import mir

CHAR_COUNTING = ("nth", "position", "rposition", "count", "enumerate", "skip", "take", "nth_back", "advance_by", "step_by", "last")
BYTE_BASED = ("alloc::string::String::len", "core::str::<impl str>::len", "core::str::<impl str>::find", "core::str::<impl str>::rfind",
              "core::str::<impl str>::split_at", "alloc::string::String::insert_str", "alloc::string::String::insert",
              "core::str::<impl str>::get", "core::ops::index::Index::index", "alloc::string::String::replace_range", "alloc::string::String::drain",
              "alloc::string::String::remove", "alloc::string::String::truncate")


def scope(F):
    fns = []
    for path in ("bytecode::function::BuiltInFunction::run", "bytecode::instruction::implementations::vec_op"):
        f = F.fn(path)
        if f is not None:
            fns += [f] + F.closures_of(f)
    for f in F.crates["bytecode"].fns:
        if f.path.startswith("bytecode::variables::") and f not in fns:
            fns.append(f)
    return fns


def run(F, rep, rule="C14.index-unit"):
    sites = {}
    nbyte = 0
    for g in scope(F):
        top = re.sub(r"::\{closure#\d+\}", "", g.path)
        for c in g.calls():
            fu = c.t["func"]
            d = fu.get("def") or ""
            if c.matches(BYTE_BASED) and ("String" in (fu.get("res") or "") or "str" in (fu.get("res") or "") or "String" in " ".join(fu.get("ga") or [])):
                nbyte += 1
            m = re.match(r"core::iter::traits::(?:iterator::Iterator|double_ended::DoubleEndedIterator)::(\w+)$", d)
            if not m or m.group(1) not in CHAR_COUNTING:
                continue
            recv = " ".join(fu.get("ga") or [])[:400] + " " + (fu.get("res") or "")
            if "core::str::iter::Chars" not in recv:
                continue
            sites.setdefault(top, []).append((m.group(1), c.span))
    for top, lst in sorted(sites.items()):
        meths = sorted({m for m, _ in lst})
        what = "%s measures string positions in characters (chars().%s) while len/substring/index_of/insert/delete/split measure in bytes" % (
            mir.short(top), "/".join(meths))
        detail = 'on multi-byte text a position from one family is wrong for the other, e.g. s = "\u00e9=x": s.index_of("=") == 2 but s[2] == "x"'
        rep.ob(rule, what, "violated", detail, lst[0][1], fn=top, key="%s|%s|%s" % (rule, mir.short(top), "+".join(meths)))
    rep.ob(rule, "string built-ins take and return byte offsets (%d byte-based position operations; %d function(s) counting characters)" % (nbyte, len(sites)),
           "ok", "", None, key=rule + "|summary")
    rep.floor(rule + " byte-based string position operations", nbyte, 15)


REPEATING_STRIPS = ("trim_start_matches", "trim_end_matches", "trim_matches", "trim_left_matches", "trim_right_matches")


def strip_once(F, rep, rule="C14.strip-once"):
    """A marker in front of / behind the text of a number (`0x`, a sign, a suffix) is part of its syntax exactly once.  The std functions
    str::trim_*_matches remove *every* repetition of their pattern, so `"0x0x25"` would read as 37 instead of being refused: in the code
    that serves the string built-ins (everything reachable from BuiltInFunction::run inside crate bytecode) they must not be applied to a
    program string.  (`trim()` & co. remove white space only and are not concerned.)"""
    entry = "bytecode::function::BuiltInFunction::run"
    if F.fn(entry) is None:
        from core import AnchorMissing
        raise AnchorMissing(entry)
    reach = F.reach([entry])
    fns = [f for f in F.crates["bytecode"].fns if re.sub(r"::\{closure#\d+\}", "", f.path) in reach or f.path in reach]
    nstr = 0
    hits = []
    for g in fns:
        for c in g.calls():
            d = (c.t["func"].get("def") or "")
            m = re.match(r"core::str::<impl str>::(\w+)$", d)
            if not m:
                continue
            nstr += 1
            if m.group(1) in REPEATING_STRIPS:
                hits.append((g, m.group(1), c.span))
    for g, meth, span in hits:
        top = re.sub(r"::\{closure#\d+\}", "", g.path)
        rep.ob(rule, "%s removes a marker with str::%s, which strips every repetition of it" % (mir.short(top), meth), "violated",
               'a text with the marker repeated (e.g. "0x0x25") is accepted as a number instead of being refused', span, fn=g.path,
               key="%s|%s|%s" % (rule, mir.short(top), meth))
    rep.ob(rule, "markers around number text are removed at most once in the string built-ins (%d str method calls inspected in %d functions)" % (nstr, len(fns)),
           "ok", "", None, key=rule + "|summary")
    rep.floor(rule + " str method calls reachable from the built-ins", nstr, 20)


def unit_mix(F, rep, rule, crates):
    """A position counted in characters (chars().position / count / enumerate index ...) handed to an API that takes a byte offset (split_at, get,
    slicing, insert, ...) is wrong for every text with a multi-byte character before it -- and, when it lands inside a character, a panic."""
    n = 0
    hits = []
    for cr in crates:
        if cr not in F.crates:
            continue
        for g in F.crates[cr].fns:
            srcs = []
            for c in g.calls():
                fu = c.t["func"]
                d = fu.get("def") or ""
                m = re.match(r"core::iter::traits::(?:iterator::Iterator|double_ended::DoubleEndedIterator)::(\w+)$", d)
                if m and m.group(1) in ("position", "rposition", "count") and "core::str::iter::Chars" in (" ".join(fu.get("ga") or []) + " " + (fu.get("res") or "")):
                    srcs.append(c)
            if not srcs:
                continue
            n += len(srcs)
            der = g.derived([c.dst["l"] for c in srcs], through_call=lambda c, idx: True if (c.matches(("core::option::Option::unwrap", "core::option::Option::unwrap_or",
                                                                                                        "core::option::Option::expect", "core::option::Option::unwrap_or_default"))) else None)
            for c in g.calls():
                if c.matches(BYTE_BASED) and any(mir.op_local(a) in der for a in c.args[1:]):
                    hits.append((g, c))
                # slicing s[a..b]: the range aggregate is built from the position
            for bi, si, d, rv, s in g.assigns():
                if "agg" in rv and "Range" in str(rv["agg"].get("adt", "")) and any(mir.op_local(o) in der for o in rv["ops"]):
                    hits.append((g, None))
    for g, c in hits:
        top = re.sub(r"::\{closure#\d+\}", "", g.path)
        rep.ob(rule, "%s hands a character count to a byte-offset API (%s)" % (mir.short(top), mir.short(c.callee()) if c is not None else "a slice range"), "violated",
               "with a multi-byte character before the position the offset is too small: wrong cut, or a panic when it lands inside a character",
               c.span if c is not None else g.span, fn=g.path, key="%s|%s|%s" % (rule, mir.short(top), mir.short(c.callee()) if c is not None else "range"))
    if not hits:
        rep.ob(rule, "no character count is used as a byte offset (%d char-counting sites in %s)" % (n, "/".join(crates)), "ok", "", None, key=rule + "|summary")


def marker_radix(F, rep, rule="C14.marker-radix"):
    """A `0x` marker that a parse method removes from its input is a statement about the base of what follows.  So wherever an arm of
    BuiltInFunction::run strips the constant "0x" (strip_prefix, or starts_with + a sub-slice) and the stripped text reaches a number parse,
    that parse is `from_str_radix(_, 16)` - with the constant 16, or with a radix that the path has tested to be 16.  A decimal `parse`
    of the stripped text reads "0x10" as 10; a parse in the caller's radix reads "0x11" in base 2 as 3."""
    import rules
    from props import _casts
    run_, arms = _casts.arms_of_run(F)
    n = 0
    # edges on which some integer is known to equal 16
    e16 = set()
    for bb, blk in enumerate(run_.blocks):
        t = blk["t"]
        if t["k"] != "switch":
            continue
        dl = mir.op_local(t["discr"])
        if t.get("dty") == "bool" and dl is not None:
            for d in rules.defs_of(run_, dl):
                if d[0] == "assign" and d[4].get("bin") == "Eq" and any((mir.op_const(d[4][s_]) or {}).get("int") == "16" for s_ in ("l", "r")):
                    e16.add((bb, t["otherwise"]))
        elif any(str(v) == "16" for v, _ in t["targets"]) and t.get("dty") in ("u32", "i32", "usize", "u8", "i64", "u64"):
            e16.add((bb, dict((str(v), b) for v, b in t["targets"])["16"]))
    for variant, blocks in sorted(arms.items()):
        strips = []
        for c in run_.calls():
            if c.bb in blocks and c.args and len(c.args) > 1 and (mir.op_const(c.args[1]) or {}).get("str") == "0x" \
                    and mir.short(c.callee()) in ("str::strip_prefix", "str::starts_with", "str::trim_start_matches"):
                strips.append(c)
        if not strips:
            continue
        parses = [c for c in run_.calls() if c.bb in blocks and (mir.short(c.callee()) == "str::parse" or mir.short(c.callee()).endswith("::from_str_radix"))]
        # locals that (may) hold stripped text
        stripped = set()
        roots_ = set()
        for c in strips:
            if mir.short(c.callee()) == "str::starts_with":
                # the sub-slice taken on the true side of the test
                der = run_.derived([c.dst["l"]])
                for bb, t_t, f_t, pol in rules.bool_switches(run_, der):
                    if pol is None:
                        continue
                    side = run_.reachable(t_t if pol else f_t, removed_edges={(bb, f_t if pol else t_t)})
                    other = run_.reachable(f_t if pol else t_t)
                    for c2 in run_.calls():
                        if c2.bb in side and c2.bb not in other and mir.short(c2.callee()) in ("str::get", "core::ops::Index::index", "<str as Index<I>>::index", "str::split_at"):
                            stripped |= set(run_.derived([c2.dst["l"]], through_call=_text_through))
                            roots_.add(c2.dst["l"])
            else:
                stripped |= set(run_.derived([c.dst["l"]], through_call=_text_through))
                roots_.add(c.dst["l"])
        for pc in parses:
            a0 = mir.op_local(pc.args[0]) if pc.args else None
            if a0 is None:
                continue
            back = set()
            work = [a0]
            while work:
                l = work.pop()
                if l in back:
                    continue
                back.add(l)
                for d in rules.defs_of(run_, l):
                    if d[0] == "assign":
                        rv = d[4]
                        pl = mir.op_place(rv["use"]) if "use" in rv else rv.get("ref")
                        if pl:
                            work.append(pl["l"])
                    elif d[4].matches(tuple(rules.TRANSPARENT)) and d[4].args:
                        work.append(mir.op_local(d[4].args[0]))
            if not (back & stripped):
                continue
            n += 1
            key = "%s|%s|%s" % (rule, variant, mir.short(pc.callee()))
            inst = "%s: text whose `0x` marker was removed is parsed in base 16 (%s)" % (variant, mir.short(pc.callee()))
            if mir.short(pc.callee()) == "str::parse":
                rep.ob(rule, inst, "violated", "the stripped text reaches a decimal parse: \"0x10\".parse_int() is 10", pc.span, fn=run_.path, key=key)
                continue
            rk = mir.op_const(pc.args[1]) if len(pc.args) > 1 else None
            if rk is not None:
                rep.ob(rule, inst, "ok" if rk.get("int") == "16" else "violated", "constant radix %s" % rk.get("int"), pc.span, fn=run_.path, key=key)
                continue
            # a variable radix: every block that moves stripped text into the parsed variable sits behind an `== 16` edge
            # `pure`: locals every definition of which comes from the stripped text (the merged variable that also holds the unstripped
            # input on other paths is not)
            pure = set(roots_)
            changed = True
            while changed:
                changed = False
                for l in stripped - pure:
                    ds = rules.defs_of(run_, l)
                    if ds and all(d[0] == "assign" and ((mir.op_place(d[4]["use"]) if "use" in d[4] else d[4].get("ref")) or {}).get("l") in pure for d in ds):
                        pure.add(l)
                        changed = True
            movers = []
            for bi, si, dst, rv, s_ in run_.assigns():
                pl = mir.op_place(rv["use"]) if "use" in rv else rv.get("ref")
                if bi in blocks and pl and pl["l"] in pure and dst["l"] in back and dst["l"] not in roots_:
                    movers.append(bi)
            for c2 in run_.calls():
                if c2.bb in blocks and c2.args and mir.op_local(c2.args[0]) in pure and c2.dst["l"] in back and _text_through(c2, [0]):
                    movers.append(c2.bb)
            bad = [b for b in set(movers) if not rules.edge_dominated(run_, b, e16)]
            rep.ob(rule, inst, "violated" if bad else ("ok" if movers else "undecided"),
                   ("the marker is removed whatever the radix is: \"0x11\".parse_int_radix(2) is 3 (blocks %s are not behind a `radix == 16` edge)" % sorted(bad)) if bad
                   else ("%d move(s) of stripped text, all behind `radix == 16`" % len(set(movers)) if movers else "no move of the stripped text found"),
                   pc.span, fn=run_.path, key=key)
    rep.floor(rule + " parses of marker-stripped text", n, 4)
    # `from_str_radix` takes a leading sign: after a marker (`0x`, `0b`) only digits of the base may follow, so the text behind the marker is
    # tested for its first character (starts_with with a pattern that is not a constant string, or a char-class test) before it is parsed
    m = 0
    for variant, blocks in sorted(arms.items()):
        strips = [c for c in run_.calls() if c.bb in blocks and c.args and len(c.args) > 1 and (mir.op_const(c.args[1]) or {}).get("str") in ("0x", "0b")
                  and mir.short(c.callee()) in ("str::strip_prefix", "str::starts_with", "str::trim_start_matches")]
        radix_parses = [c for c in run_.calls() if c.bb in blocks and mir.short(c.callee()).endswith("::from_str_radix")]
        if not strips or not radix_parses:
            continue
        m += 1
        tests = []
        for c in run_.calls():
            if c.bb not in blocks:
                continue
            nm = mir.short(c.callee())
            if nm == "str::starts_with" and len(c.args) > 1 and mir.op_const(c.args[1]) is None:
                tests.append(c)
            elif nm.endswith(("::is_ascii_hexdigit", "::is_ascii_digit", "::is_digit", "::to_digit")):
                tests.append(c)
        # ... and the test sits between the strip and the parse
        between = [t_ for t_ in tests if any(t_.bb in run_.reachable(s_.target) for s_ in strips if s_.target is not None)
                   and any(p_.bb in run_.reachable(t_.target) for p_ in radix_parses if t_.target is not None)]
        rep.ob(rule, "%s: behind the marker only digits of the base are taken (no sign)" % variant, "ok" if between else "violated",
               "" if between else "the text behind the marker goes to from_str_radix untested: \"0b+1\".parse_byte() is 1", strips[0].span, fn=run_.path,
               key="%s|digits-after-marker|%s" % (rule, variant))
    rep.floor(rule + " arms that strip a marker and parse with a radix", m, 3)


def _text_through(call, derived_args):
    """calls that hand the (possibly absent) text on unchanged"""
    return 0 in derived_args and mir.short(call.callee()).replace("::<T>", "") in ("Option::unwrap_or_default", "Option::unwrap_or", "Option::unwrap", "Option::expect",
                                                                                    "Option::unwrap_or_else", "<String as Deref>::deref", "str::trim", "<T as Into<U>>::into")


def stripped_roots(fn, strips):
    return {c.dst["l"] for c in strips}
