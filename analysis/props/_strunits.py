"""C14 — one unit for string positions.

Every string built-in that produces or consumes a position (len, substring, index_of, insert, delete, split) works on the
underlying String in *byte* offsets (String::len, str::find, Index<Range>, insert_str, split_at ...).  An operation that walks
`chars()` and counts (nth / position / count / enumerate / skip / take on a Chars iterator) measures in *characters*: on
multi-byte text its positions disagree with every byte-based built-in (s[s.index_of(x)] is no longer x).  The rule lists every
char-counting site in the code that handles program strings.
"""
import re
import mir

CHAR_COUNTING = ("nth", "position", "rposition", "count", "enumerate", "skip", "take", "nth_back", "advance_by", "step_by", "last")
BYTE_BASED = ("alloc::string::String::len", "core::str::<impl str>::len", "core::str::<impl str>::find", "core::str::<impl str>::rfind",
              "core::str::<impl str>::split_at", "alloc::string::String::insert_str", "alloc::string::String::insert",
              "core::str::<impl str>::get", "core::ops::index::Index::index", "alloc::string::String::replace_range", "alloc::string::String::drain",
              "alloc::string::String::remove", "alloc::string::String::truncate")


def scope(F):
    fns = []
    for path in ("bytecode::function::BuiltInFunction::run", "bytecode::instruction::implementations::vec_op"):
        f = F.fn(path)
        if f is not None:
            fns += [f] + F.closures_of(f)
    for f in F.crates["bytecode"].fns:
        if f.path.startswith("bytecode::variables::") and f not in fns:
            fns.append(f)
    return fns


def run(F, rep, rule="C14.index-unit"):
    sites = {}
    nbyte = 0
    for g in scope(F):
        top = re.sub(r"::\{closure#\d+\}", "", g.path)
        for c in g.calls():
            fu = c.t["func"]
            d = fu.get("def") or ""
            if c.matches(BYTE_BASED) and ("String" in (fu.get("res") or "") or "str" in (fu.get("res") or "") or "String" in " ".join(fu.get("ga") or [])):
                nbyte += 1
            m = re.match(r"core::iter::traits::(?:iterator::Iterator|double_ended::DoubleEndedIterator)::(\w+)$", d)
            if not m or m.group(1) not in CHAR_COUNTING:
                continue
            recv = " ".join(fu.get("ga") or [])[:400] + " " + (fu.get("res") or "")
            if "core::str::iter::Chars" not in recv:
                continue
            sites.setdefault(top, []).append((m.group(1), c.span))
    for top, lst in sorted(sites.items()):
        meths = sorted({m for m, _ in lst})
        what = "%s measures string positions in characters (chars().%s) while len/substring/index_of/insert/delete/split measure in bytes" % (
            mir.short(top), "/".join(meths))
        detail = 'on multi-byte text a position from one family is wrong for the other, e.g. s = "\u00e9=x": s.index_of("=") == 2 but s[2] == "x"'
        rep.ob(rule, what, "violated", detail, lst[0][1], fn=top, key="%s|%s|%s" % (rule, mir.short(top), "+".join(meths)))
    rep.ob(rule, "string built-ins take and return byte offsets (%d byte-based position operations; %d function(s) counting characters)" % (nbyte, len(sites)),
           "ok", "", None, key=rule + "|summary")
    rep.floor(rule + " byte-based string position operations", nbyte, 15)


REPEATING_STRIPS = ("trim_start_matches", "trim_end_matches", "trim_matches", "trim_left_matches", "trim_right_matches")


def strip_once(F, rep, rule="C14.strip-once"):
    """A marker in front of / behind the text of a number (`0x`, a sign, a suffix) is part of its syntax exactly once.  The std functions
    str::trim_*_matches remove *every* repetition of their pattern, so `"0x0x25"` would read as 37 instead of being refused: in the code
    that serves the string built-ins (everything reachable from BuiltInFunction::run inside crate bytecode) they must not be applied to a
    program string.  (`trim()` & co. remove white space only and are not concerned.)"""
    entry = "bytecode::function::BuiltInFunction::run"
    if F.fn(entry) is None:
        from core import AnchorMissing
        raise AnchorMissing(entry)
    reach = F.reach([entry])
    fns = [f for f in F.crates["bytecode"].fns if re.sub(r"::\{closure#\d+\}", "", f.path) in reach or f.path in reach]
    nstr = 0
    hits = []
    for g in fns:
        for c in g.calls():
            d = (c.t["func"].get("def") or "")
            m = re.match(r"core::str::<impl str>::(\w+)$", d)
            if not m:
                continue
            nstr += 1
            if m.group(1) in REPEATING_STRIPS:
                hits.append((g, m.group(1), c.span))
    for g, meth, span in hits:
        top = re.sub(r"::\{closure#\d+\}", "", g.path)
        rep.ob(rule, "%s removes a marker with str::%s, which strips every repetition of it" % (mir.short(top), meth), "violated",
               'a text with the marker repeated (e.g. "0x0x25") is accepted as a number instead of being refused', span, fn=g.path,
               key="%s|%s|%s" % (rule, mir.short(top), meth))
    rep.ob(rule, "markers around number text are removed at most once in the string built-ins (%d str method calls inspected in %d functions)" % (nstr, len(fns)),
           "ok", "", None, key=rule + "|summary")
    rep.floor(rule + " str method calls reachable from the built-ins", nstr, 20)


def unit_mix(F, rep, rule, crates):
    """A position counted in characters (chars().position / count / enumerate index ...) handed to an API that takes a byte offset (split_at, get,
    slicing, insert, ...) is wrong for every text with a multi-byte character before it -- and, when it lands inside a character, a panic."""
    n = 0
    hits = []
    for cr in crates:
        if cr not in F.crates:
            continue
        for g in F.crates[cr].fns:
            srcs = []
            for c in g.calls():
                fu = c.t["func"]
                d = fu.get("def") or ""
                m = re.match(r"core::iter::traits::(?:iterator::Iterator|double_ended::DoubleEndedIterator)::(\w+)$", d)
                if m and m.group(1) in ("position", "rposition", "count") and "core::str::iter::Chars" in (" ".join(fu.get("ga") or []) + " " + (fu.get("res") or "")):
                    srcs.append(c)
            if not srcs:
                continue
            n += len(srcs)
            der = g.derived([c.dst["l"] for c in srcs], through_call=lambda c, idx: True if (c.matches(("core::option::Option::unwrap", "core::option::Option::unwrap_or",
                                                                                                        "core::option::Option::expect", "core::option::Option::unwrap_or_default"))) else None)
            for c in g.calls():
                if c.matches(BYTE_BASED) and any(mir.op_local(a) in der for a in c.args[1:]):
                    hits.append((g, c))
                # slicing s[a..b]: the range aggregate is built from the position
            for bi, si, d, rv, s in g.assigns():
                if "agg" in rv and "Range" in str(rv["agg"].get("adt", "")) and any(mir.op_local(o) in der for o in rv["ops"]):
                    hits.append((g, None))
    for g, c in hits:
        top = re.sub(r"::\{closure#\d+\}", "", g.path)
        rep.ob(rule, "%s hands a character count to a byte-offset API (%s)" % (mir.short(top), mir.short(c.callee()) if c is not None else "a slice range"), "violated",
               "with a multi-byte character before the position the offset is too small: wrong cut, or a panic when it lands inside a character",
               c.span if c is not None else g.span, fn=g.path, key="%s|%s|%s" % (rule, mir.short(top), mir.short(c.callee()) if c is not None else "range"))
    if not hits:
        rep.ob(rule, "no character count is used as a byte offset (%d char-counting sites in %s)" % (n, "/".join(crates)), "ok", "", None, key=rule + "|summary")
