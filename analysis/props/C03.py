"""C03 — ill-typed programs are rejected with a diagnostic before anything runs (structural clauses).

 (a) error discipline: in crate `compiler`, no diagnostic (the Err payload of a Result carrying anyhow::Error /
     Vec<anyhow::Error> / pest errors) is dropped unread, except the allow-listed intentional discards;
 (b) validate-then-generate-then-run order: code generation is dominated by successful validation, execution by
     successful compilation; a compilation error reaches only `bail!`;
 (c) per-construct guard table: each type rule named by the property is a guarded-by instance on the AST builder
     (rules/guards_c03.json).
"""
import json
import os
import re

import mir
import rules
from mir import op_local, op_const, op_place
from core import AnchorMissing, VERIF

try:
    from props import _errdrop
except ImportError:
    _errdrop = None
try:
    from props import _guards
except ImportError:
    _guards = None
from props import _predtable, _identity


def need(F, path):
    f = F.fn(path)
    if f is None:
        raise AnchorMissing(path)
    return f


def continue_edge_of(fn, call):
    """(switch_bb, continue_target) of the `?` that consumes `call`'s result, looking through to_err_vec/context wrappers."""
    wrappers = ("compiler::VecErr::to_err_vec", "anyhow::Context::context", "anyhow::Context::with_context", "core::result::Result::map_err")
    cur = call
    for _ in range(4):
        te = rules.try_edges(fn, cur)
        if te is not None:
            return te[2], te[0]
        nxt = [c for c in fn.calls() if c.matches(wrappers) and c.args and op_local(c.args[0]) == cur.dst["l"]]
        if len(nxt) != 1:
            return None
        cur = nxt[0]
    return None


def dominated_by_success(rep, fn, first_pats, then_pats, label, key):
    firsts = [c for c in fn.calls() if c.matches(tuple(first_pats))]
    thens = [c for c in fn.calls() if c.matches(tuple(then_pats))]
    if not firsts or not thens:
        rep.ob("C03.order", label, "undecided", "anchors not found (first=%d then=%d)" % (len(firsts), len(thens)), fn.span, fn=fn.path, key=key)
        return
    edges = set()
    for c in firsts:
        e = continue_edge_of(fn, c)
        if e is not None:
            edges.add(e)
    if not edges:
        rep.ob("C03.order", label, "violated", "the result of %s is not propagated with `?` before %s" % (
            mir.short(firsts[0].callee()), mir.short(thens[0].callee())), firsts[0].span, fn=fn.path, key=key)
        return
    bad = [c for c in thens if not rules.edge_dominated(fn, c.bb, edges)]
    rep.ob("C03.order", label, "violated" if bad else "ok",
           "%s is reachable without passing the success edge of %s" % (mir.short(bad[0].callee()), mir.short(firsts[0].callee())) if bad else "",
           (bad[0].span if bad else firsts[0].span), fn=fn.path, key=key)


def run(ctx, rep):
    F = ctx.facts("default", ["bytecode", "compiler", "mscript-bin"])
    rep.explain("C03: must-pass-through (edge dominators over MIR) for validate -> generate -> run; def-use of Err payloads for dropped "
                "diagnostics; guarded-by instances per typing rule on the AST builders.")
    rep.assume("that the diagnostic text names the right source position is not decided (spans are attached by callers several frames up)")

    # ---- (b) ---------------------------------------------------------------------------------------------
    for path in ("compiler::compile_from_str", "compiler::compile_from_str_default_side_effects"):
        f = need(F, path)
        dominated_by_success(rep, f, ["compiler::ast_file_from_str"], ["compiler::ast::CompilationState::compile_recursive"],
                             "%s: code generation only after validation (ast_file_from_str) succeeded" % mir.short(path), "C03.order|%s|validate-before-generate" % mir.short(path))
        dominated_by_success(rep, f, ["compiler::root_ast_from_str"], ["compiler::ast_file_from_str"],
                             "%s: validation only after parsing succeeded" % mir.short(path), "C03.order|%s|parse-before-validate" % mir.short(path))
    cc = need(F, "compiler::compile")
    dominated_by_success(rep, cc, ["compiler::compile_from_str_default_side_effects"], ["compiler::perform_file_io_out", "compiler::seal_compiled_items"],
                         "compile: output is written / sealed only after compilation succeeded", "C03.order|compile|compile-before-output")
    # validation is the whole-file AST construction (type checking happens while the AST is built)
    av = need(F, "compiler::ast_file_from_str")
    cl = F.closures_of(av)
    okv = any(g.calls_to("compiler::parser::Parser::file") for g in [av] + cl)
    rep.ob("C03.order", "ast_file_from_str validates by building the whole file's AST (Parser::file)", "ok" if okv else "violated", "", av.span, fn=av.path,
           key="C03.order|ast_file_from_str|is-validation")
    # CLI: run
    mc = need(F, "mscript::compile")
    lib = mc.calls_to("compiler::compile")
    ok = False
    detail = "compiler::compile call not found"
    if len(lib) == 1:
        sw = rules.find_discr_switch(mc, lib[0].target, lib[0].dst["l"])
        if sw is None:
            # matched through a moved copy
            for bi, blk in enumerate(mc.blocks):
                t = blk["t"]
                if t["k"] == "switch":
                    for s in blk["s"]:
                        if "d" in s and "discr" in s["rv"] and lib[0].dst["l"] in rules.chain_locals(mc, s["rv"]["discr"]["l"]):
                            sw = bi
        if sw is not None:
            t = mc.term(sw)
            err_t = dict(t["targets"]).get("1", t["otherwise"])
            ok_t = dict(t["targets"]).get("0", t["otherwise"])
            reach = mc.reachable(err_t, removed_edges={(sw, ok_t)})
            ok_ret = [b for b in rules.ok_return_blocks(mc) if b in reach]
            errs = [bi for bi, si, dst, rv, s in mc.assigns() if bi in reach and dst["l"] == 0 and "agg" in rv and rv["agg"].get("v") == "Err"]
            ok = not ok_ret and bool(errs)
            detail = "Err arm reaches Ok return: %s; builds Err: %s" % (bool(ok_ret), bool(errs))
    rep.ob("C03.order", "CLI compile wrapper: compilation errors end in an Err (non-zero exit), never Ok", "ok" if ok else "violated", detail, mc.span,
           fn=mc.path, key="C03.order|mscript::compile|errors-fail")
    # the Run thread body
    main = need(F, "mscript::main")
    runners = [g for g in F.closures_of(main) if g.calls_to("bytecode::interpreter::Program::execute")]
    n = 0
    for g in runners:
        comp = g.calls_to("mscript::compile")
        if not comp:
            continue      # the `execute` command runs an existing file: nothing to compile
        n += 1
        dominated_by_success(rep, g, ["mscript::compile"], ["bytecode::interpreter::Program::execute", "bytecode::interpreter::Program::new_from_file"],
                             "run: the program is executed only after compilation succeeded", "C03.order|main-run|compile-before-execute")
    rep.floor("C03.run closures that compile then execute", n, 1)

    if _errdrop is not None:
        _errdrop.run(F, rep, ctx)
    if _guards is not None:
        _guards.run(F, rep, ctx)
    return_scope(F, rep)
    _predtable.run(F, rep, ctx)
    from props import C02 as _c02
    _c02.return_marking(F, rep, "C03.return-marking")
    _predtable.run_conditions(F, rep)
    _identity.run(F, rep)
    _identity.zip_lengths(F, rep, "C03.zip-length")
    signature_invariance(F, rep, "C03.signature-invariance")
    generic_keeps_its_side(F, rep)
    # "operator applied to unsupported kinds" is refused: the static operator table accepts no cell the interpreter's operators refuse by kind (the
    # comparison of the two tables is C02's; the same cells, read as "an ill-typed operator expression is rejected", belong here too)
    from props import C02 as _c02
    from core import Report as _Report
    tmp = _Report("C02", rep.tier)
    _c02.run_optable(ctx, tmp, F)
    n_cells = 0
    for o in tmp.obligations:
        if o["rule"] == "C02.op-table":
            n_cells += 1
            rep.ob("C03.op-table", o["instance"], o["status"], o["detail"], o["where"], key=o["key"].replace("C02.", "C03.", 1), fn=o.get("fn"))
    rep.floor("C03.op-table cells", n_cells, 500)
    every_argument_is_checked(F, rep, "C03.arity")
    optional_not_accepted_for_plain(F, rep, "C03.optional-direction")
    # leaves that are not checked where they are built (a bare `self` outside of a class) are rejected by the check of the finished tree
    from props import C16 as _c16
    _c16.expressions_are_typed_before_they_are_stored(F, rep, rule="C03.typed-tree")
    prefix_words_are_reserved(ctx, F, rep)
    loop_step_is_type_checked(F, rep)
    diagnostics_name_the_source_file(F, rep)
    # `x op= y` whose result cannot be stored back into x is a type-breaking edit like any other (shared with C02)
    from props import C02 as _c02
    _c02.opassign_result_storable(F, rep, rule="C03.opassign-result")


def every_argument_is_checked(F, rep, rule):
    """A call is accepted only after *each* argument written at the call site was matched with a parameter.  In Parser::function_arguments
    the walk over the argument nodes may leave early only into a diagnostic: with the iterator's own end-of-input edge taken away, no
    Ok return is reachable from the walk (a `break` on a surplus argument drops it - unchecked, uncompiled, unevaluated - and accepts the call)."""
    f = None
    for g in F.crates["compiler"].fns:
        if g.path.endswith("::function_arguments") and "impl compiler::parser::Parser" in g.path:
            f = g
    if f is None:
        raise AnchorMissing("Parser::function_arguments")
    nexts = [c for c in f.calls() if c.callee().endswith("::next") and "desugar:ForLoop" in (c.t.get("mc") or [])]
    if not nexts:
        rep.ob(rule, "Parser::function_arguments walks the argument nodes with a for loop", "undecided", "no for-loop `next` found", f.span, fn=f.path, key=rule)
        return
    verdicts = []
    for c in nexts:
        sw = rules.find_discr_switch(f, c.target, c.dst["l"]) if c.target is not None else None
        if sw is None:
            verdicts.append((c, None))
            continue
        t = f.term(sw)
        none_t = dict(t["targets"]).get("0")
        if none_t is None:
            verdicts.append((c, None))
            continue
        reach = f.reachable(c.bb, removed_edges={(sw, none_t)})
        oks = [b for b in rules.ok_return_blocks(f) if b in reach]
        verdicts.append((c, oks))
    und = [c for c, v in verdicts if v is None]
    bad = [(c, v) for c, v in verdicts if v]
    rep.ob(rule, "Parser::function_arguments accepts a call only after walking every argument node (no early exit into Ok)",
           "violated" if bad else ("undecided" if und else "ok"),
           ("an Ok return is reachable from inside the walk without the iterator having ended: `f = fn(a: int) -> int {..}; f(1, 2)` is accepted and the "
            "second argument is dropped") if bad else "", nexts[0].span, fn=f.path, key=rule)


def signature_invariance(F, rep, rule):
    """`T?` accepts a `T` when a *value* is checked against a type (TypeLayout::eq_complex looks through the optional unless the flags say
    `signature_check`).  For the parameters of two function types that relaxation is unsound - a `fn(int)` handed over where `fn(int?)` is
    expected will be called with nil - so wherever `<FunctionType as PartialEq>::eq` compares parameter types, the flags it passes to
    eq_complex have signature_check set: they come from `TypecheckFlags::signature_check()` (or a literal with the field true)."""
    eq = None
    for f in F.crates["compiler"].fns:
        if f.path.endswith("function::FunctionType as core::cmp::PartialEq>::eq"):
            eq = f
    if eq is None:
        raise AnchorMissing("<FunctionType as PartialEq>::eq")
    bodies = [eq] + list(F.closures_of(eq))
    n = 0
    for g in bodies:
        for c in g.calls_to("compiler::ast::r#type::TypeLayout::eq_complex"):
            n += 1
            l = op_local(c.args[2]) if len(c.args) > 2 else None
            ok, why = False, "flags operand not traced"
            if l is not None:
                oc = rules.origin_calls(g, l, transparent=rules.TRANSPARENT)
                # a closure that captured `&flags`: look the captured value up in the parent
                if not oc and g is not eq:
                    for bi, si, dst, rv, s_ in eq.assigns():
                        if "agg" in rv and rv["agg"].get("k") == "closure" and rv["agg"].get("def") == g.path:
                            for o in rv["ops"]:
                                lo = op_local(o)
                                if lo is not None and "TypecheckFlags" in eq.locals[lo]:
                                    oc += rules.origin_calls(eq, lo, transparent=rules.TRANSPARENT)
                names = sorted({mir.short(o.callee()) for o in oc})
                if oc and all(o.callee().endswith("TypecheckFlags<T>::signature_check") or mir.short(o.callee()).endswith("::signature_check") for o in oc):
                    ok, why = True, ""
                else:
                    why = "the flags come from %s: `T?` then accepts `T`, so a `fn(int)` passes for a `fn(int?)` and is later called with nil" % (names or "an untraced value")
            rep.ob(rule, "%s compares parameter types with signature_check set" % mir.short(g.path), "ok" if ok else "violated", why, c.span, fn=g.path,
                   key="%s|%s|#%d" % (rule, mir.short(g.path), n))
    rep.floor(rule + " parameter comparisons in FunctionType::eq", n, 1)
    # ... and the flag reaches the *element types* of a list parameter: eq_complex, evaluated abstractly with the flags signature_check()
    # constructs, refuses ([T?...], [T...]) and ([T...], [T?...]) like (T?, T), and accepts equal list types
    import tables
    from props import _hashkeys
    from absint import Interp, Variant, TRUE, FALSE, NONE
    eqc = [f for f in F.crates["compiler"].fns if f.path.endswith("TypeLayout::eq_complex") and f.kind != "Closure"]
    fl = F.adt("compiler::ast::r#type::TypecheckFlags")
    if len(eqc) != 1 or fl is None:
        raise AnchorMissing("TypeLayout::eq_complex / TypecheckFlags")
    vals = {"signature_check": TRUE, "executing_class": NONE}
    flags = Variant("compiler::ast::r#type::TypecheckFlags", 0, "TypecheckFlags", [vals.get(x["name"], FALSE) for x in fl["variants"][0]["fields"]])
    ty = _hashkeys.Types(F)
    m = 0
    for a, b, want in ((("Opt", "Int"), "Int", False), ("Int", ("Opt", "Int"), False), (("Open", ("Opt", "Int")), ("Open", "Int"), False),
                       (("Open", "Int"), ("Open", ("Opt", "Int")), False), (("Open", ("Opt", "Int")), ("Open", ("Opt", "Int")), True),
                       (("Open", "Int"), ("Open", "Int"), True),
                       (("Open", ("Open", ("Opt", "Int"))), ("Open", ("Open", "Int")), False)):
        ms_ = dict(tables.MODELS)
        ms_.update(_hashkeys._iter_models())
        it = Interp(F, models=ms_, max_depth=12, max_paths=2048, loop_bound=8)
        try:
            outs = it.run(eqc[0], [ty.build(a, "a"), ty.build(b, "b"), flags])
            got = {bool(o.value.v) if (o.kind == "return" and hasattr(o.value, "v")) else "?" for o in outs}
        except (ValueError, KeyError):
            got = {"?"}
        key = "%s|elements|%s|%s" % (rule, _hashkeys.show(a), _hashkeys.show(b))
        label = "as parameter types, %s and %s are %s" % (_hashkeys.show(a), _hashkeys.show(b), "the same" if want else "different")
        if it.exhausted or "?" in got or len(got) != 1:
            rep.ob(rule, label, "undecided", "eq_complex not evaluated: %s" % sorted(map(str, got)), eqc[0].span, fn=eqc[0].path, key=key)
            continue
        m += 1
        g = got.pop()
        rep.ob(rule, label, "ok" if g == want else "violated",
               "" if g == want else "eq_complex under signature_check answers %s: a `fn([int...])` passes for a `fn([int?...])` and is called with a list that holds nil" % g,
               eqc[0].span, fn=eqc[0].path, key=key)
    rep.floor(rule + " element-type evaluations", m, 6)
    container_invariance(F, rep, eqc[0], fl, ty)
    or_fallback_is_asked_of_eq_complex(F, rep)


def or_fallback_is_asked_of_eq_complex(F, rep, rule="C03.or-fallback"):
    """`(x) or y` has the type x has when it is present; y has to fit it, and the question is eq_complex(expected = that type, supplied = y's type).
    `==` / `!=` on two TypeLayouts is not that question with the sides free: ListType's hand-written PartialEq *is* the directional relation, so
    `fallback_ty != *ty` (the supplied type on the left) calls `[int?...]` equal to `[int...]`.  In the body that reports "The `or` portion of this
    unwrap must yield ..", no comparison of two types with == / != stands in front of the eq_complex call with an edge that reaches the successful
    return around it."""
    hint = "compiler::ast::r#type::TypeLayout::get_error_hint_between_types"
    bodies = [g for g in F.crates["compiler"].fns if "math_expr::parse_expr" in g.path and g.calls_to(hint)]
    rep.floor(rule + " bodies that report a wrong `or` fallback", len(bodies), 1)
    for g in bodies:
        eqs = [c for c in g.calls() if c.callee().endswith("TypeLayout::eq_complex") and c.target is not None
               and any(h.bb in g.reachable(c.target) for h in g.calls_to(hint))]
        if not eqs:
            rep.ob(rule, "%s: the fallback's type is asked of eq_complex" % mir.short(g.path), "violated", "no eq_complex call stands in front of the `or` diagnostic",
                   g.span, fn=g.path, key="%s|%s" % (rule, mir.short(g.path)))
            continue
        okr = set(rules.ok_return_blocks(g))
        E = {c.bb for c in eqs}
        bypass = []
        for q in g.calls():
            if not (q.callee().endswith(("::eq", "::ne")) and len(q.args) == 2 and q.dst is not None):
                continue
            if not any("TypeLayout" in g.locals[op_local(a)] for a in q.args if op_local(a) is not None):
                continue
            if not any(g.dominates(q.bb, e) for e in E):
                continue
            der = g.derived([q.dst["l"]])
            for bb, t_t, f_t, pol in rules.bool_switches(g, der):
                for edge in (t_t, f_t):
                    if not (g.reachable(edge) & E) and (g.reachable(edge, removed_blocks=E) & okr):
                        bypass.append(q.span)
        rep.ob(rule, "%s: no == / != between two types lets a fallback pass around eq_complex" % mir.short(g.path), "violated" if bypass else "ok",
               ("a == / != on two TypeLayouts at %s has an edge that reaches the successful return without eq_complex: with the supplied type on the left, ListType's "
                "directional PartialEq accepts `[int?...]` as a fallback for `[int...]?`; the result is typed `[int...]` and holds nil" % sorted(set(bypass))[:2]) if bypass else "",
               eqs[0].span, fn=g.path, key="%s|%s" % (rule, mir.short(g.path)))


def container_invariance(F, rep, eqc, fl, ty, rule="C03.container-invariance"):
    """A list or a map is shared and mutable: where a `map[int, int?]` is expected, a `map[int, int]` is a wrong type (the callee may store nil
    into it, and the owner reads an int).  The directional tolerance of eq_complex (`T?` accepts `T`) must therefore not reach the parts of two
    container types.  Decided by evaluating eq_complex, with the flags of an ordinary comparison, on pairs of container types that differ in the
    optionality of a part only (expected: different) and on equal pairs (expected: the same)."""
    import tables
    from props import _hashkeys
    from absint import Interp, Variant, FALSE, NONE
    flags = Variant("compiler::ast::r#type::TypecheckFlags", 0, "TypecheckFlags", [NONE if x["name"] == "executing_class" else FALSE for x in fl["variants"][0]["fields"]])
    m = 0
    for a, b, want in ((("MapOf", "Int", ("Opt", "Int")), ("MapOf", "Int", "Int"), False), (("MapOf", ("Opt", "Int"), "Int"), ("MapOf", "Int", "Int"), False),
                       (("MapOf", "Int", "Int"), ("MapOf", "Int", ("Opt", "Int")), False), (("MapOf", "Int", "Int"), ("MapOf", "Int", "Int"), True),
                       (("MapOf", "Int", ("Opt", "Int")), ("MapOf", "Int", ("Opt", "Int")), True),
                       (("Open", ("Opt", "Int")), ("Open", "Int"), False), (("Open", "Int"), ("Open", ("Opt", "Int")), False), (("Open", "Int"), ("Open", "Int"), True)):
        ms_ = dict(tables.MODELS)
        ms_.update(_hashkeys._iter_models())
        it = Interp(F, models=ms_, max_depth=12, max_paths=2048, loop_bound=8)
        try:
            outs = it.run(eqc, [ty.build(a, "a"), ty.build(b, "b"), flags])
            got = {bool(o.value.v) if (o.kind == "return" and hasattr(o.value, "v")) else "?" for o in outs}
        except (ValueError, KeyError):
            got = {"?"}
        key = "%s|%s|%s" % (rule, _hashkeys.show(a), _hashkeys.show(b))
        label = "a %s slot and a %s value: %s" % (_hashkeys.show(a), _hashkeys.show(b), "accepted" if want else "refused")
        if it.exhausted or "?" in got or len(got) != 1:
            rep.ob(rule, label, "undecided", "eq_complex not evaluated: %s" % sorted(map(str, got)), eqc.span, fn=eqc.path, key=key)
            continue
        m += 1
        g = got.pop()
        rep.ob(rule, label, "ok" if g == want else "violated",
               "" if g == want else ("eq_complex answers %s: the value is shared with its owner, and what the receiver may store through the wider type (nil) "
                                     "the owner reads through the narrower one" % g), eqc.span, fn=eqc.path, key=key)
    rep.floor(rule + " evaluations", m, 7)


def return_scope(F, rep):
    """`return v` is checked against the function it is in.  A block (if / else / while / from) inherits what it owes from the scopes around it;
    the walk that finds it must not look past the innermost function scope -- a void closure inside an `-> int` function would otherwise accept
    `return 1` from one of its blocks.  The functions that compute a block's starting status (the origin of the `yields` argument of the block
    scope pushes) are evaluated on a scripted scope stack  [block(No), Function(Void), Function(Should(OUTER))] : OUTER must not come back."""
    import absint
    from absint import Interp, Variant, Opaque, Ptr, some, NONE
    from props.C15 import scripted_next, NEXT
    srs = F.adt("compiler::scope::ScopeReturnStatus")
    sc = F.adt("compiler::scope::Scope")
    st = F.adt("compiler::scope::ScopeType")
    if srs is None or sc is None or st is None:
        raise AnchorMissing("Scope / ScopeType / ScopeReturnStatus")
    rn = [v["name"] for v in srs["variants"]]
    tn = [v["name"] for v in st["variants"]]

    def status(name, payload=None):
        return Variant("compiler::scope::ScopeReturnStatus", rn.index(name), name, [payload] if payload is not None else [])

    def scope(kind, yields):
        vi = tn.index(kind)
        ty = Variant("compiler::scope::ScopeType", vi, kind, [Opaque("p%d" % i) for i in range(len(st["variants"][vi]["fields"]))])
        return Variant("compiler::scope::Scope", 0, "Scope", [ty if f["name"] == "ty" else (yields if f["name"] == "yields" else Opaque(f["name"]))
                                                              for f in sc["variants"][0]["fields"]])
    pushers = ("compiler::parser::AssocFileData::push_if_typed", "compiler::parser::AssocFileData::push_else_typed",
               "compiler::parser::AssocFileData::push_while_loop", "compiler::parser::AssocFileData::push_number_loop")
    finders = {}
    for g, c in F.callers_of(pushers):
        if len(c.args) < 2 or op_local(c.args[1]) is None:
            continue
        # a block starts out *owing* its return: its starting status is computed afresh, never the final status of a finished sibling block
        stale = [oc for oc in rules.origin_calls(g, op_local(c.args[1]), transparent=rules.TRANSPARENT | {"core::option::Option::map_or_else", "core::option::Option::map_or",
                                                                                                         "core::option::Option::map", "core::option::Option::unwrap_or"})
                 if oc.matches("compiler::scope::ScopeHandle::consume")]
        rep.ob("C03.return-scope", "%s opens its %s scope with a fresh return status" % (mir.short(g.path), mir.short(c.callee()).split("::")[-1].replace("push_", "").replace("_typed", "")),
               "violated" if stale else "ok",
               "the scope starts with the status another block ended with (ScopeHandle::consume at %s): if that block returned, this one counts as returning without a `return`" % stale[0].span if stale else "",
               c.span, fn=g.path, key="C03.return-scope|fresh-status|%s|%s" % (mir.short(g.path), mir.short(c.callee())))
        for oc in rules.origin_calls(g, op_local(c.args[1]), transparent=rules.TRANSPARENT | {"core::option::Option::map_or_else", "core::option::Option::map_or",
                                                                                              "core::option::Option::map", "core::option::Option::unwrap_or"}):
            f2 = F.fn(oc.callee())
            if f2 is not None and f2.path.startswith("compiler::parser::AssocFileData::"):
                finders[f2.path] = f2
    rep.floor("C03.return-scope functions computing a block's starting status", len(finders), 1)

    def filter_map(it, p, fid, fn, t, args):
        cl = args[1]
        if not isinstance(cl, absint.Closure):
            return NotImplemented
        g = it.lookup_fn(cl.defn)
        if g is None:
            return NotImplemented
        v = args[0]

        def wrap(r):
            if isinstance(r, Variant) and r.adt == "core::option::Option":
                return absint.ok(r.fields[0]) if r.name == "Some" else absint.err(v)
            return Opaque("filter_map")
        return ("enter", g, [cl, v], wrap)
    outer = Opaque("OUTER-FUNCTION-RETURN-TYPE")
    script = [scope("IfBlock", status("No")), scope("Function", status("Void")), scope("Function", status("Should", outer)), scope("File", status("No"))]
    for path, f2 in sorted(finders.items()):
        models = dict(absint.DEFAULT_MODELS)
        models[NEXT] = scripted_next(script)
        models["core::cell::Ref::filter_map"] = filter_map
        it = Interp(F, models=models, max_depth=6, max_paths=128, loop_bound=8)
        outs = it.run(f2, [Opaque("self")])
        leaked, undecided, seen = False, False, []

        def mentions(v, depth=0):
            if depth > 8:
                return False
            if isinstance(v, Opaque):
                return v.tag.startswith("OUTER-FUNCTION-RETURN-TYPE")
            if isinstance(v, (Variant, absint.Tup)):
                return any(mentions(x, depth + 1) for x in v.fields)
            return False
        for o in outs:
            if o.kind != "return":
                undecided = True
                continue
            seen.append(repr(o.value)[:80])
            if mentions(o.value):
                leaked = True
        if it.exhausted or not outs:
            undecided = True
        rep.ob("C03.return-scope", "%s does not look past the innermost function scope for the type a `return` must have" % mir.short(path),
               "violated" if leaked else ("undecided" if undecided else "ok"),
               ("a block inside a void function that is nested in a function returning T starts out owing T: `return v` in it is checked against the wrong function; " if leaked else "")
               + "on [block, fn (void), fn -> OUTER]: %s" % seen[:3], f2.span, fn=f2.path, key="C03.return-scope|%s" % mir.short(path))



def optional_not_accepted_for_plain(F, rep, rule):
    """`TypeLayout::eq_complex(expected, supplied, flags)` is asymmetric: a `T?` slot takes a `T`, and - unless lhs_allow_optional_unwrap is
    set - a `T` slot does not take a `T?`.  At every place where the parser checks a value against the slot it is stored into (typed
    declaration, call argument, map literal entry, re-assignment, return) the call is read off the MIR - which operand is the value's type
    (it comes from `Value::for_type`), which flags are passed - and eq_complex itself is then evaluated abstractly in exactly that
    configuration on (slot int, value int?), which must be refused, and on (slot int?, value int), which must be accepted."""
    import tables
    from absint import Interp, Variant, TRUE, FALSE, NONE
    T = tables.Tables(F)
    eqc = [f for f in F.crates["compiler"].fns if f.path.endswith("TypeLayout::eq_complex") and f.kind != "Closure"]
    fl = F.adt("compiler::ast::r#type::TypecheckFlags")
    if len(eqc) != 1 or fl is None:
        raise AnchorMissing("TypeLayout::eq_complex / TypecheckFlags")
    eqc = eqc[0]

    def flags(unwrap):
        vals = {"lhs_allow_optional_unwrap": TRUE if unwrap else FALSE, "executing_class": NONE}
        return Variant("compiler::ast::r#type::TypecheckFlags", 0, "TypecheckFlags", [vals.get(x["name"], FALSE) for x in fl["variants"][0]["fields"]])
    memo = {}

    def accepts(recv, arg, unwrap):
        k = (recv, arg, unwrap)
        if k not in memo:
            tl = {"int": T.tl_value("Int", "a"), "int?": T.tl_value(("Opt", "Int"), "b")}
            it = Interp(F, models=tables.MODELS, max_depth=8, max_paths=512)
            outs = it.run(eqc, [tl[recv], tl[arg], flags(unwrap)])
            vals = {bool(o.value.v) if (o.kind == "return" and hasattr(o.value, "v")) else "?" for o in outs}
            memo[k] = vals.pop() if len(vals) == 1 and not it.exhausted else "?"
        return memo[k]
    thr = rules.TRANSPARENT | {rules.TRY_BRANCH, "compiler::VecErr::to_err_vec", "compiler::CompilationError::details", "anyhow::Context::context",
                               "anyhow::Context::with_context", "compiler::ast::r#type::TypeLayout::get_type_recursively",
                               "compiler::ast::r#type::TypeLayout::disregard_distractors", "compiler::ast::r#type::TypeLayout::assume_type_of_self",
                               "core::result::Result::unwrap", "core::option::Option::unwrap"}
    n = 0
    for f in F.crates["compiler"].fns:
        if "impl compiler::parser::Parser" not in f.path:
            continue
        for c in f.calls_to("compiler::ast::r#type::TypeLayout::eq_complex"):
            roles = []
            for a in c.args[:2]:
                l = op_local(a)
                oc = rules.origin_calls(f, l, transparent=thr) if l is not None else []
                if not oc and l is not None:
                    # a wrapper built on the spot (`&Cow::Borrowed(supplied_type)`): look at what it wraps
                    for o in rules.origins(f, l, transparent=thr):
                        if o[0] == "agg":
                            for bi, si, dst, rv, s_ in f.assigns():
                                if bi == o[1] and si == o[2] and "agg" in rv:
                                    for x in rv["ops"]:
                                        if op_local(x) is not None:
                                            oc += rules.origin_calls(f, op_local(x), transparent=thr)
                roles.append(bool(oc) and all(o.callee().endswith(("Value::for_type", "Expr::for_type")) or "IntoType>::for_type" in o.callee() for o in oc))
            if roles[0] == roles[1]:
                continue        # two declared types, or two value types: not a value-into-slot check
            # lhs_unwrap(const) on the flags?
            unwrap = False
            fl_l = op_local(c.args[2]) if len(c.args) > 2 else None
            for o in (rules.origin_calls(f, fl_l, transparent=rules.TRANSPARENT - {"compiler::ast::r#type::TypecheckFlags::lhs_unwrap"}) if fl_l is not None else []):
                if mir.short(o.callee()).endswith("::lhs_unwrap") and len(o.args) > 1:
                    k = op_const(o.args[1])
                    unwrap = unwrap or k is None or k.get("int") != "0"
            n += 1
            value_is_receiver = roles[0]
            refuse = accepts("int?", "int", unwrap) if value_is_receiver else accepts("int", "int?", unwrap)
            accept = accepts("int", "int?", unwrap) if value_is_receiver else accepts("int?", "int", unwrap)
            st = "undecided" if "?" in (refuse, accept) else ("ok" if refuse is False and accept is True else "violated")
            why = ""
            if st == "violated":
                why = ("the call is `%s.eq_complex(%s, lhs_unwrap=%s)`: a slot of type int %s a value of type int?, a slot of type int? %s a value of type int"
                       % ("value" if value_is_receiver else "slot", "slot" if value_is_receiver else "value", unwrap, "takes" if refuse else "refuses",
                          "takes" if accept else "refuses"))
            rep.ob(rule, "%s checks the value against its slot: `T?` takes `T`, `T` does not take `T?`" % mir.short(f.path), st, why, c.span, fn=f.path,
                   key="%s|%s|%s" % (rule, mir.short(f.path), (c.span or "").split(":")[0].split("/")[-1] + "#%d" % n))
    rep.floor(rule + " value-into-slot checks", n, 5)



def prefix_words_are_reserved(ctx, F, rep, rule="C03.unknown-name"):
    """The declared-name lookup sits in the expression builder (parse_expr).  `value = math_expr | function | ident | list`: a text that math_expr
    fails on falls through to the bare `ident` alternative, which Parser::value turns into a variable read without any lookup.  A PEG commits
    to an optional prefix once it matched (`math_prefix? ~ math_primary`): on the text `typeof` followed by a line end, `typeof` is taken as
    the prefix, no operand follows, math_expr fails and `typeof` becomes a variable name.  So every identifier-shaped word an optional
    prefix of math_atom can consume has to be refused by Parser::ident (KEYWORDS).  Read from the grammar and from the initializer of KEYWORDS."""
    import json
    import extract
    gpath = os.path.join(os.environ.get("VERIF_FACTS_DIR") or extract.ensure("default"), "grammar.json")
    if not os.path.exists(gpath):
        raise AnchorMissing("grammar.json (engine/gramdump)")
    R = {r["name"]: r for r in json.load(open(gpath))["rules"]}
    if "math_atom" not in R or "value" not in R:
        raise AnchorMissing("grammar rules math_atom / value")

    def alts(e):
        return alts(e["a"]) + alts(e["b"]) if e["k"] == "choice" else [e]

    def first_words(e, depth=0):
        """Literal texts an expression can start with (through rule references; only what is needed here)."""
        k = e["k"]
        if k == "str":
            return {e["v"]}
        if k == "ident":
            return first_words(R[e["v"]]["expr"], depth + 1) if e["v"] in R and depth < 8 else set()
        if k == "choice":
            return first_words(e["a"], depth) | first_words(e["b"], depth)
        if k == "seq":
            return first_words(e["a"], depth)
        if k in ("opt", "rep", "rep1", "push", "pospred"):
            return first_words(e["e"], depth)
        return set()
    # the bare ident alternative must come after math_expr for the fall-through to exist
    names = [a.get("v") for a in alts(R["value"]["expr"])]
    falls = "ident" in names and "math_expr" in names and names.index("ident") > names.index("math_expr")
    e = R["math_atom"]["expr"]
    lead = e["a"] if e["k"] == "seq" else e
    words = sorted(w for w in (first_words(lead["e"]) if lead["k"] == "opt" else set()) if re.match(r"^[A-Za-z_][A-Za-z0-9_]*$", w))
    kw = None
    for f in F.crates["compiler"].fns:
        if f.path.startswith("compiler::ast::ident::KEYWORDS::{closure"):
            kw = {x[1] for x in rules.string_literals(f) if x[0] == "str"}
    if kw is None:
        raise AnchorMissing("compiler::ast::ident::KEYWORDS")
    rep.floor(rule + " identifier-shaped prefix words of math_atom", len(words), 2)
    rep.floor(rule + " reserved words", len(kw), 20)
    for w in words:
        ok = (w in kw) or not falls
        rep.ob(rule, "the prefix word `%s` cannot be read as a variable name" % w, "ok" if ok else "violated",
               "" if ok else "`%s` is not in KEYWORDS: `print %s` at the end of a line compiles to `load \"%s\"` (no declared-name lookup), which fails when it runs" % (w, w, w),
               "compiler/src/grammar.pest", key="%s|prefix-word|%s" % (rule, w))



def loop_step_is_type_checked(F, rep, rule="C03.loop-step"):
    """`from a to b step s`: at run time the counter becomes `a + s` and is compared with the bound.  `a + s` alone is not enough of a check
    (`1 + "x"` is string concatenation): Parser::number_loop has to ask whether the *result of the addition* can be compared (`<=` yields
    bool).  Structural part: some get_output_type call takes, as its receiver, the result of another get_output_type call (the addition),
    and every successful return lies behind the Some edge of a test of its result."""
    nl = None
    for g in F.crates["compiler"].fns:
        if g.path.endswith("::number_loop") and "impl compiler::parser::Parser" in g.path and g.kind != "Closure":
            nl = g
    if nl is None:
        raise AnchorMissing("Parser::number_loop")
    GOT = "compiler::ast::r#type::TypeLayout::get_output_type"
    gots = nl.calls_to(GOT)
    rep.floor(rule + " operator typings in number_loop", len(gots), 2)
    thr = rules.TRANSPARENT | {rules.TRY_BRANCH, "core::option::Option::unwrap", "core::option::Option::unwrap_or_else", "core::option::Option::unwrap_or"}
    chained = []
    for b in gots:
        l = op_local(b.args[0]) if b.args else None
        oc = rules.origin_calls(nl, l, transparent=thr) if l is not None else []
        if any(a in gots and a is not b for a in oc):
            chained.append(b)
    oks = rules.ok_return_blocks(nl)
    good = []
    for b in chained:
        removed = set()
        for bb, base, targets, other in rules.discr_switches(nl, nl.derived([b.dst["l"]])):
            if "1" in targets:                       # Option::Some
                removed.add((bb, targets["1"]))
        if removed and not (set(oks) & nl.reachable(0, removed_edges=removed)):
            good.append(b)
    ok = bool(good)
    rep.ob(rule, "the type of `start + step` is itself checked to be comparable before the loop is accepted", "ok" if ok else "violated",
           "" if ok else ("%d of %d operator typings take the result of another as receiver, none of them guards the successful returns: "
                          "`from 0 to 6 step \"2\"` compiles (the counter becomes the str \"02\") and fails when it is compared" % (len(chained), len(gots))),
           nl.span, fn=nl.path, key=rule)



def diagnostics_name_the_source_file(F, rep, rule="C03.diagnostic-file"):
    """A diagnostic names the source file and the position in it.  The parser state knows two names: the `.ms` source (get_source_file_name)
    and the `.mmm` file the bytecode will be written to (get_file_name).  Every builder of a positioned diagnostic (new_err, map_err,
    CompilationError::details) takes the file name as an argument: that argument derives from get_source_file_name, never from
    get_file_name / bytecode_path."""
    BUILDERS = {"compiler::ast::new_err": 1, "compiler::ast::map_err": 2, "compiler::CompilationError::details": 2}
    SRC = ("compiler::parser::AssocFileData::get_source_file_name", "compiler::parser::AssocFileData::source_path")
    OUT = ("compiler::parser::AssocFileData::get_file_name", "compiler::parser::AssocFileData::bytecode_path")
    thr = rules.TRANSPARENT | {rules.TRY_BRANCH, "alloc::string::String::as_str", "core::ops::deref::Deref::deref", "core::convert::AsRef::as_ref", "core::borrow::Borrow::borrow",
                               "core::clone::Clone::clone", "alloc::borrow::ToOwned::to_owned", "alloc::string::ToString::to_string"}
    n, bad = 0, []
    for f in F.crates["compiler"].fns:
        for c in f.calls():
            idx = None
            for b, i in BUILDERS.items():
                if c.matches(b):
                    idx = i
            if idx is None or idx >= len(c.args):
                continue
            n += 1
            l = op_local(c.args[idx])
            oc = rules.origin_calls(f, l, transparent=thr) if l is not None else []
            if any(x.matches(OUT) for x in oc):
                bad.append((f, c))
    seen = {}
    for f, c in bad:
        owner = mir.short(re.sub(r"::\{closure#\d+\}", "", f.path))
        seen[owner] = seen.get(owner, 0) + 1
        rep.ob(rule, "%s reports its diagnostic against the source file" % owner, "violated",
               "the file name handed to %s comes from get_file_name(): the diagnostic reads `x.mmm:LINE:COL`, a file that does not exist yet" % mir.short(c.callee()),
               c.span, fn=f.path, key="%s|%s#%d" % (rule, owner, seen[owner]))
    if not bad:
        rep.ob(rule, "no positioned diagnostic is reported against the bytecode file's name", "ok", "%d diagnostic constructions inspected" % n, None, key=rule + "|summary")
    rep.floor(rule + " positioned diagnostic constructions", n, 90)


def generic_keeps_its_side(F, rep, rule="C03.optional-direction"):
    """eq_complex(slot, value) is asymmetric (`T?` takes `T`, `T` does not take `T?`).  The result type of `map` is a generic that is locked to the
    callback's return type; when a generic stands on the *value* side (`ys: [int...] = xs.map(f)` with f returning `int?`) the locked type has to
    be compared as the value - `slot.eq_complex(locked)` - not as the slot.  Structurally: among the functions eq_complex hands a GenericType
    to, one compares with the locked type as receiver (generic on the slot side) and one with the locked type as argument (generic on the
    value side); a single or-pattern arm for both sides compares `locked.eq_complex(other)` in both roles and lets `[int?...]` into `[int...]`."""
    eqc = [f for f in F.crates["compiler"].fns if f.path.endswith("TypeLayout::eq_complex") and f.kind != "Closure"]
    if len(eqc) != 1:
        raise AnchorMissing("TypeLayout::eq_complex")
    eqc = eqc[0]
    helpers = {}
    for c in eqc.calls():
        if not c.args:
            continue
        l = op_local(c.args[0])
        if l is not None and "GenericType" in eqc.locals[l] and (c.callee() or "").startswith("compiler::"):
            g = F.fn(c.callee())
            if g is not None:
                helpers[g.path] = g
    rep.floor(rule + " generic comparisons in eq_complex", len(helpers), 1)
    as_slot = as_value = False
    for g in helpers.values():
        locks = g.calls_to("compiler::ast::r#type::GenericType::try_get_lock")
        der = g.derived([c.dst["l"] for c in locks if c.dst], through_call=lambda cc, idx: True)
        for c in g.calls_to("compiler::ast::r#type::TypeLayout::eq_complex"):
            r, a = op_local(c.args[0]), op_local(c.args[1]) if len(c.args) > 1 else None
            if r in der and a not in der:
                as_slot = True
            if a in der and r not in der:
                as_value = True
    ok_ = as_slot and as_value
    rep.ob(rule, "a generic on the value side of eq_complex is compared as the value (slot.eq_complex(locked)), on the slot side as the slot",
           "ok" if ok_ else ("violated" if as_slot else "undecided"),
           "" if ok_ else "the locked type of a generic is only ever the receiver of eq_complex: `ys: [int...] = xs.map(fn(x: int) -> int? {..})` is accepted and ys holds nil",
           eqc.span, fn=eqc.path, key=rule + "|generic-side")
