"""R-CAST — lossy numeric conversions of program values (C13 b,c; C14 b,c).

`as` never fails: an integer cast that narrows or changes sign wraps, a float -> int cast saturates and maps NaN to 0.  Applied to a
program value (backward slice reaches a Primitive) in the list/string/number built-ins or in index conversion, the program continues
with a wrong value where the property demands a failure (out-of-range index, unrepresentable conversion).  Widening casts
(u8 -> i32 -> i128, any int -> f64 [precision loss accepted and documented], u8/u32 -> usize) are fine.

Arms: BuiltInFunction::run is split into its match arms by dominators of the discriminant switch, so that a finding is attributed to
the built-in (VecRemove, GenericToBigint ...) and to the property that owns it.
"""
import re
import mir
import rules
from mir import op_local
from core import AnchorMissing
from props import _panics

RANK = {"u8": (0, 8), "u16": (0, 16), "u32": (0, 32), "u64": (0, 64), "usize": (0, 64), "u128": (0, 128),
        "i8": (1, 8), "i16": (1, 16), "i32": (1, 32), "i64": (1, 64), "isize": (1, 64), "i128": (1, 128)}


def lossy(kind, src, dst):
    if kind == "FloatToInt":
        return "saturates out-of-range values and maps NaN to 0"
    if kind != "IntToInt" or src not in RANK or dst not in RANK:
        return None
    (ss, sw), (ds, dw) = RANK[src], RANK[dst]
    if ss == ds:
        return "truncates" if dw < sw else None
    if ss == 0 and ds == 1:
        return "truncates" if dw <= sw else None
    return "wraps negative values" if dw >= sw else "truncates / wraps"


def arms_of_run(F):
    """{variant name: set(blocks)} for BuiltInFunction::run, plus the Fn."""
    run = F.fn("bytecode::function::BuiltInFunction::run")
    if run is None:
        raise AnchorMissing("BuiltInFunction::run")
    adt = F.adt("bytecode::function::BuiltInFunction")
    names = [v["name"] for v in adt["variants"]]
    # the first switch on a discriminant of *self
    sw = None
    for bi, b in enumerate(run.blocks):
        t = b["t"]
        if t["k"] == "switch":
            for s in b["s"]:
                rv = s.get("rv") or {}
                if "discr" in rv and rv["discr"]["l"] == 1:
                    sw = bi
            if sw is not None:
                break
    if sw is None:
        raise AnchorMissing("discriminant switch of BuiltInFunction::run")
    doms = run.dominators()
    arms = {}
    for val, tgt in run.term(sw)["targets"]:
        vi = int(val)
        if vi < len(names):
            arms[names[vi]] = {b for b in range(len(run.blocks)) if tgt in doms.get(b, ())}
    return run, arms


def cast_sites(F, fns):
    for f in fns:
        for bi, si, dst, rv, s in f.assigns():
            if "cast" not in rv or rv["cast"] not in ("IntToInt", "FloatToInt"):
                continue
            src = rv.get("from") or rv.get("oty")
            to = rv.get("ty") or rv.get("to")
            why = lossy(rv["cast"], src, to)
            if not why:
                continue
            l = op_local(rv["op"])
            t = _panics.taint(f, l) if l is not None else None
            if not t:
                continue
            yield f, bi, src, to, why, s.get("us") or s.get("sp")


def _report(F, rep, rule, owner_pred, floor_name, floor):
    run, arms = arms_of_run(F)
    block_arm = {}
    for a, bs in arms.items():
        for b in bs:
            block_arm.setdefault(b, a)
    scope = [run] + F.closures_of(run)
    scope += [f for f in F.crates["bytecode"].fns if f.path.startswith(("bytecode::variables::primitive::Primitive::", "bytecode::instruction::implementations::"))
              and f not in scope]
    n = 0
    seen = {}
    for f, bi, src, to, why, span in cast_sites(F, scope):
        arm = block_arm.get(bi) if f is run else None
        owner = arm or mir.short(re.sub(r"::\{closure#\d+\}", "", f.path))
        if not owner_pred(owner):
            continue
        n += 1
        seen.setdefault((owner, src, to), []).append((why, span))
    for (owner, src, to), lst in sorted(seen.items()):
        rep.ob(rule, "%s converts a program value with `as` (%s -> %s), which %s, instead of a checked conversion" % (owner, src, to, lst[0][0]), "violated",
               "the program continues with a wrong value where a failure is required; sites: %s" % [x[1] for x in lst][:4], lst[0][1],
               fn="bytecode::function::BuiltInFunction::run", key="%s|%s|%s->%s" % (rule, owner, src, to))
    rep.ob(rule, "lossy `as` conversions of program values in %s" % floor_name, "ok" if not seen else "violated", "%d lossy site(s)" % n, None,
           key=rule + "|summary") if not seen else None
    # the rule is not blind: widening casts of program values exist in scope
    wid = 0
    for f in scope:
        for bi, si, dst, rv, s in f.assigns():
            if "cast" in rv and rv["cast"] in ("IntToInt", "IntToFloat"):
                wid += 1
    rep.floor(rule + " numeric casts inspected", wid, floor)


C13_OWNERS = re.compile(r"^(Vec|Map)|try_into_numeric_index|vec_op|fast_map|make_vector|make_map")
C14_OWNERS = re.compile(r"^(Str|Generic|Float|Byte|Int|BigInt)")


def run_c13(F, rep):
    _report(F, rep, "C13.cast", lambda o: bool(C13_OWNERS.search(o)), "list / map built-ins and index conversion", 10)


def run_c14(F, rep):
    _report(F, rep, "C14.cast", lambda o: bool(C14_OWNERS.search(o)), "string / number built-ins", 10)
