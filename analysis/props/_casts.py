"""R-CAST — lossy numeric conversions of program values (C13 b,c; C14 b,c).

`as` never fails: an integer cast that narrows or changes sign wraps, a float -> int cast saturates and maps NaN to 0.  Applied to a
program value (backward slice reaches a Primitive) in the list/string/number built-ins or in index conversion, the program continues
with a wrong value where the property demands a failure (out-of-range index, unrepresentable conversion).  Widening casts
(u8 -> i32 -> i128, any int -> f64 [precision loss accepted and documented], u8/u32 -> usize) are fine.

Arms: BuiltInFunction::run is split into its match arms by dominators of the discriminant switch, so that a finding is attributed to
the built-in (VecRemove, GenericToBigint ...) and to the property that owns it.
"""
import re
import mir
import rules
from mir import op_local
from core import AnchorMissing
from props import _panics

RANK = {"u8": (0, 8), "u16": (0, 16), "u32": (0, 32), "u64": (0, 64), "usize": (0, 64), "u128": (0, 128),
        "i8": (1, 8), "i16": (1, 16), "i32": (1, 32), "i64": (1, 64), "isize": (1, 64), "i128": (1, 128)}


def lossy(kind, src, dst):
    if kind == "FloatToInt":
        return "saturates out-of-range values and maps NaN to 0"
    if kind != "IntToInt" or src not in RANK or dst not in RANK:
        return None
    (ss, sw), (ds, dw) = RANK[src], RANK[dst]
    if ss == ds:
        return "truncates" if dw < sw else None
    if ss == 0 and ds == 1:
        return "truncates" if dw <= sw else None
    return "wraps negative values" if dw >= sw else "truncates / wraps"


def arms_of_run(F):
    """{variant name: set(blocks)} for BuiltInFunction::run, plus the Fn."""
    run = F.fn("bytecode::function::BuiltInFunction::run")
    if run is None:
        raise AnchorMissing("BuiltInFunction::run")
    adt = F.adt("bytecode::function::BuiltInFunction")
    names = [v["name"] for v in adt["variants"]]
    # the first switch on a discriminant of *self
    sw = None
    for bi, b in enumerate(run.blocks):
        t = b["t"]
        if t["k"] == "switch":
            for s in b["s"]:
                rv = s.get("rv") or {}
                if "discr" in rv and rv["discr"]["l"] == 1:
                    sw = bi
            if sw is not None:
                break
    if sw is None:
        raise AnchorMissing("discriminant switch of BuiltInFunction::run")
    doms = run.dominators()
    arms = {}
    for val, tgt in run.term(sw)["targets"]:
        vi = int(val)
        if vi < len(names):
            arms[names[vi]] = {b for b in range(len(run.blocks)) if tgt in doms.get(b, ())}
    return run, arms


def cast_sites(F, fns):
    for f in fns:
        for bi, si, dst, rv, s in f.assigns():
            if "cast" not in rv or rv["cast"] not in ("IntToInt", "FloatToInt"):
                continue
            src = rv.get("from") or rv.get("oty")
            to = rv.get("ty") or rv.get("to")
            why = lossy(rv["cast"], src, to)
            if not why:
                continue
            l = op_local(rv["op"])
            t = _panics.taint(f, l) if l is not None else None
            if not t:
                continue
            yield f, bi, src, to, why, s.get("us") or s.get("sp")


def _report(F, rep, rule, owner_pred, floor_name, floor):
    run, arms = arms_of_run(F)
    block_arm = {}
    for a, bs in arms.items():
        for b in bs:
            block_arm.setdefault(b, a)
    scope = [run] + F.closures_of(run)
    scope += [f for f in F.crates["bytecode"].fns if f.path.startswith(("bytecode::variables::primitive::Primitive::", "bytecode::instruction::implementations::"))
              and f not in scope]
    n = 0
    seen = {}
    for f, bi, src, to, why, span in cast_sites(F, scope):
        arm = block_arm.get(bi) if f is run else None
        owner = arm or mir.short(re.sub(r"::\{closure#\d+\}", "", f.path))
        if not owner_pred(owner):
            continue
        n += 1
        seen.setdefault((owner, src, to), []).append((why, span))
    for (owner, src, to), lst in sorted(seen.items()):
        rep.ob(rule, "%s converts a program value with `as` (%s -> %s), which %s, instead of a checked conversion" % (owner, src, to, lst[0][0]), "violated",
               "the program continues with a wrong value where a failure is required; sites: %s" % [x[1] for x in lst][:4], lst[0][1],
               fn="bytecode::function::BuiltInFunction::run", key="%s|%s|%s->%s" % (rule, owner, src, to))
    rep.ob(rule, "lossy `as` conversions of program values in %s" % floor_name, "ok" if not seen else "violated", "%d lossy site(s)" % n, None,
           key=rule + "|summary") if not seen else None
    # the rule is not blind: widening casts of program values exist in scope
    wid = 0
    for f in scope:
        for bi, si, dst, rv, s in f.assigns():
            if "cast" in rv and rv["cast"] in ("IntToInt", "IntToFloat"):
                wid += 1
    rep.floor(rule + " numeric casts inspected", wid, floor)


C13_OWNERS = re.compile(r"^(Vec|Map)|try_into_numeric_index|vec_op|fast_map|make_vector|make_map")
C14_OWNERS = re.compile(r"^(Str|Generic|Float|Byte|Int|BigInt)")


def run_c13(F, rep):
    _report(F, rep, "C13.cast", lambda o: bool(C13_OWNERS.search(o)), "list / map built-ins and index conversion", 10)


def run_c14(F, rep):
    _report(F, rep, "C14.cast", lambda o: bool(C14_OWNERS.search(o)), "string / number built-ins", 10)
    float_guard_boundaries(F, rep, "C14.cast")
    int_helper_boundaries(F, rep, "C14.cast")


_INT = re.compile(r"^([iu])(8|16|32|64|128|size)$")


def _int_range(ty):
    m = _INT.match(ty)
    bits = 64 if m.group(2) == "size" else int(m.group(2))
    return (-(1 << (bits - 1)), (1 << (bits - 1)) - 1) if m.group(1) == "i" else (0, (1 << bits) - 1)


def int_helper_boundaries(F, rep, rule="C14.cast"):
    """A helper that takes a program number as an integer parameter and narrows it with `as` (which keeps the low bits) is evaluated abstractly on
    the boundary values of the parameter's type and of each type it casts to: the cast must never be reached with a value the target cannot
    hold (the guard in front of it has to cover both ends).  Helpers are found from their call sites: a non-closure function of the
    interpreter crate with an integer parameter that some caller fills with a value derived from a Primitive."""
    import absint
    from absint import Interp, Int, Opaque
    bc = F.crates["bytecode"].fns
    helpers = {}
    ncalls = 0
    for f in bc:
        for c in f.calls():
            g = F.fn(c.callee())
            if g is None or g.kind == "Closure" or g not in bc and g.path.split("::")[0].strip("<&") != "bytecode":
                continue
            ips = [i for i in range(1, g.argc + 1) if _INT.match(g.locals[i].strip())]
            if not ips:
                continue
            casts = []
            for bi, si, dst, rv, st in g.assigns():
                if rv.get("cast") == "IntToInt":
                    src = rv.get("from") or rv.get("oty")
                    to = rv.get("ty") or rv.get("to")
                    if lossy("IntToInt", src, to) and _INT.match(to or ""):
                        casts.append((to, st.get("us") or st.get("sp")))
            ncalls += 1
            if not casts:
                continue
            for i in ips:
                if i - 1 < len(c.args):
                    l = op_local(c.args[i - 1])
                    if l is not None and _panics.taint(f, l):
                        helpers.setdefault(g.path, (g, set(), casts))[1].add(i)
    rep.floor(rule + " calls of interpreter functions with integer parameters inspected", ncalls, 5)
    for path, (g, params, casts) in sorted(helpers.items()):
        bad, undec, n = [], [], 0
        for i in sorted(params):
            pty = g.locals[i].strip()
            plo, phi = _int_range(pty)
            vals = {plo, plo + 1, -1, 0, 1, phi - 1, phi}
            for to, _sp in casts:
                lo, hi = _int_range(to)
                vals |= {lo - 1, lo, hi, hi + 1, hi + 3}
            for v in sorted(x for x in vals if plo <= x <= phi):
                it = Interp(F, models=dict(absint.DEFAULT_MODELS), max_depth=5, max_paths=64)
                args = [Int(v, pty) if k == i else Opaque("arg%d" % k) for k in range(1, g.argc + 1)]
                try:
                    outs = it.run(g, args)
                except (ValueError, KeyError):
                    outs = []
                n += 1
                wraps = [e for o in outs for e in o.events if e[0] == "i2i"]
                if wraps:
                    bad.append("%d reaches `as %s` and becomes %d" % (v, wraps[0][2], (wraps[0][1] - _int_range(wraps[0][2])[0]) % (_int_range(wraps[0][2])[1] - _int_range(wraps[0][2])[0] + 1) + _int_range(wraps[0][2])[0]))
                elif it.exhausted or not outs:
                    undec.append("%d: not evaluated" % v)
        rep.ob(rule, "%s narrows its integer parameter with `as` only when the target type can hold it (boundary values)" % mir.short(path),
               "violated" if bad else ("undecided" if undec else "ok"), "; ".join((bad or undec)[:4]) or "%d boundary evaluations" % n, casts[0][1], fn=path,
               key="%s|int-range|%s" % (rule, mir.short(path)))


def float_guard_boundaries(F, rep, rule="C14.cast"):
    """A float is turned into an integer with `as` only after a range guard (helper functions taking the float as a parameter).  `as` saturates
    and maps NaN to 0, so the guard must let through exactly the values the target can hold: the helper is evaluated abstractly on the
    boundary values of every integer target it casts to (NaN, +-inf, +-2^(n-1), their neighbours, 0) and the cast must be reached only with
    a value v with  -2^(n-1) <= v < 2^(n-1)."""
    import math
    import struct
    import absint
    from absint import Interp, Flt, Opaque, Int, Tup, Variant

    def nxt(x, up):
        b = struct.unpack("<q", struct.pack("<d", x))[0]
        b += 1 if (x > 0) == up else -1
        return struct.unpack("<d", struct.pack("<q", b))[0]
    BITS = {"i8": 8, "i16": 16, "i32": 32, "i64": 64, "i128": 128, "isize": 64, "u8": 8, "u16": 16, "u32": 32, "u64": 64, "u128": 128, "usize": 64}
    helpers = []
    for f in F.crates["bytecode"].fns:
        casts = [(rv["to"], st.get("sp")) for bi, si, d, rv, st in f.assigns() if rv.get("cast") == "FloatToInt"]
        fparams = [i for i in range(1, f.argc + 1) if f.locals[i].strip() in ("f64", "f32")]
        if casts and fparams and f.kind != "Closure":
            helpers.append((f, casts, fparams))
    rep.floor(rule + " float-to-integer helpers", len(helpers), 1)

    def m_unary(fn_):
        def model(it, p, fid, fn, t, args):
            v = args[0]
            if isinstance(v, absint.Ptr):
                v = it.deref(p, v)
            if isinstance(v, Flt):
                return fn_(v.v)
            return NotImplemented
        return model

    def rng_new(it, p, fid, fn, t, args):
        return Tup([args[0], args[1]])

    def rng_contains(it, p, fid, fn, t, args):
        r = args[0]
        k = 0
        while isinstance(r, absint.Ptr) and k < 4:
            r = it.deref(p, r)
            k += 1
        x = args[1]
        k = 0
        while isinstance(x, absint.Ptr) and k < 4:
            x = it.deref(p, x)
            k += 1
        if isinstance(r, Tup) and len(r.fields) >= 2 and all(isinstance(q, Flt) for q in r.fields[:2]) and isinstance(x, Flt):
            return absint.mkbool(r.fields[0].v <= x.v <= r.fields[1].v)
        if isinstance(r, Variant) and len(r.fields) >= 2 and all(isinstance(q, Flt) for q in r.fields[:2]) and isinstance(x, Flt):
            return absint.mkbool(r.fields[0].v <= x.v <= r.fields[1].v)
        return NotImplemented
    models = dict(absint.DEFAULT_MODELS)
    models.update({
        "core::f64::<impl f64>::is_finite": m_unary(lambda v: absint.mkbool(math.isfinite(v))),
        "core::f64::<impl f64>::is_nan": m_unary(lambda v: absint.mkbool(math.isnan(v))),
        "core::f64::<impl f64>::is_infinite": m_unary(lambda v: absint.mkbool(math.isinf(v))),
        "core::f64::<impl f64>::abs": m_unary(lambda v: Flt(abs(v))),
        "core::f64::<impl f64>::trunc": m_unary(lambda v: Flt(float(math.trunc(v))) if math.isfinite(v) else Flt(v)),
        "core::ops::range::RangeInclusive::new": rng_new,
        "core::ops::range::RangeInclusive::contains": rng_contains,
        "core::ops::range::Range::contains": lambda it, p, fid, fn, t, args: NotImplemented,
    })
    for f, casts, fparams in helpers:
        bad, undec, n = [], [], 0
        refused = []
        for to in sorted({c[0] for c in casts}):
            bits = BITS.get(to)
            if bits is None:
                continue
            signed = to.startswith("i")
            lo = -(2.0 ** (bits - 1)) if signed else 0.0
            hi = 2.0 ** (bits - 1) if signed else 2.0 ** bits          # first value that does NOT fit
            vals = [float("nan"), float("inf"), float("-inf"), hi, nxt(hi, False), nxt(hi, True), lo, nxt(lo, True), nxt(lo, False), 0.0, -0.5, 1e300, -1e300]
            for v in vals:
                it = Interp(F, models=models, max_depth=5, max_paths=64)
                args = [Flt(v) if i in fparams else Opaque("arg%d" % i) for i in range(1, f.argc + 1)]
                try:
                    outs = it.run(f, args)
                except (ValueError, KeyError):
                    outs = []
                n += 1
                reached = [e for o in outs for e in o.events if e[0] == "f2i" and e[2] == to]
                fits = math.isfinite(v) and lo <= v < hi
                unknown = it.exhausted or not outs or any(o.kind not in ("return", "panic") for o in outs) or any(
                    ("assert-fails" in str(a)) for o in outs for a in o.assume if False)
                # paths forked on something we could not evaluate: the guard was not read
                forked = any(o.data_dep for o in outs if any(e[0] == "f2i" for e in o.events)) and len({bool([e for e in o.events if e[0] == "f2i"]) for o in outs}) > 1
                if (unknown or forked) and not fits:
                    undec.append("%r -> %s" % (v, to))
                elif reached and not fits:
                    bad.append("%r reaches `as %s` (%s)" % (v, to, "NaN becomes 0" if math.isnan(v) else "saturates to the type's limit"))
                elif fits and not reached and not (unknown or forked):
                    # the other direction: a value the type can hold is turned away by the guard
                    refused.append("%r fits %s but the guard refuses it" % (v, to))
        rep.ob(rule, "%s lets a float through to `as` only when the integer type can hold it (boundary values of each target)" % mir.short(f.path),
               "violated" if bad else ("undecided" if undec else "ok"), "; ".join((bad or undec)[:4]) or "%d boundary evaluations" % n, f.span, fn=f.path,
               key="%s|float-range|%s" % (rule, mir.short(f.path)))
        rep.ob(rule, "%s turns no float away that the integer type can hold (boundary values of each target)" % mir.short(f.path),
               "violated" if refused else "ok", "; ".join(refused[:4]), f.span, fn=f.path, key="%s|float-range-complete|%s" % (rule, mir.short(f.path)))
