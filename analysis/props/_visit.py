"""R-VISIT — visitor completeness of the capture walk (C07 a, C02 c).

A closure's capture list is `net_dependencies()` of its body.  For every AST type T with
`impl Dependencies for T`: every field (per variant) that can contain code -- its type mentions,
through Box/Vec/Option/tuples/local helper ADTs, a type implementing `Compile` or `Dependencies` --
must be *touched* (projected from `self` and used) in `dependencies()`, `supplies()` or an
overridden `net_dependencies()`.  An untouched code-bearing field is a variable use the walk
never sees: the closure does not capture it and the program fails at run time with
"load before store".  Types that describe types rather than code stop the reachability.
"""
import re

import mir
import rules
from mir import op_local, op_place
from core import AnchorMissing

DEP = "compiler::ast::Dependencies"
COMPILE = "compiler::ast::Compile"

# types that are not code (they describe types / bookkeeping); reachability stops here
STOP_PREFIX = ("compiler::ast::r#type::", "compiler::ast::class::ClassType", "compiler::ast::function::FunctionType",
               "compiler::parser::AssocFileData", "compiler::parser::Node", "compiler::parser::Rule", "compiler::parser::CompilationLock", "compiler::parser::FileManager", "compiler::scope::", "compiler::ast::CompiledItem", "compiler::ast::CompilationState")

# declarations, not uses (each with the reason it is not a captured variable)
EXEMPT = {
    ("compiler::ast::class::member_function::MemberFunction", None, "ident"): "the method's own name (a declaration inside the class body frame)",
    ("compiler::ast::class::member_variable::MemberVariable", None, "ident"): "the field's own name (a declaration inside the class body frame)",
    ("compiler::ast::export::Export", None, "exports"): "export bookkeeping (weak reference to the module's export list), not code",
    ("compiler::ast::export::Export", None, "public_types"): "export bookkeeping, not code",
    ("compiler::parser::File", None, "exports"): "the module's export list (names declared with `export`): bookkeeping filled by the pre-walk, not code of the file body",
}

_PATH_RE = re.compile(r"compiler::[A-Za-z0-9_:#]+")


def run(F, rep, rule):
    c = F.crates["compiler"]
    dep_impls = {}
    code_types = set()
    for i in c.impls:
        if i.get("trait") == DEP:
            dep_impls[mir.strip_generics(i["self"]).replace("<'_>", "")] = i
            code_types.add(mir.strip_generics(i["self"]))
    code_types = {t for t in code_types if t.startswith("compiler::")}
    # a type whose Dependencies impl is empty (`impl Dependencies for T {}`) has declared that it uses no variables:
    # it bears code only if its own fields do
    leaf = {t for t, i in dep_impls.items() if not any(x.endswith(("::dependencies", "::supplies", "::net_dependencies")) for x in i["items"])}
    if len(dep_impls) < 20:
        raise AnchorMissing("impl Dependencies for ... (found %d)" % len(dep_impls))
    memo = {}

    def bears_code(ty, depth=0):
        """Does a value of this type (possibly) contain code?"""
        if ty in memo:
            return memo[ty]
        memo[ty] = False
        res = False
        for pth in _PATH_RE.findall(ty):
            pth = pth.rstrip(":")
            if pth.startswith(STOP_PREFIX):
                continue
            if pth in code_types and pth not in leaf:
                res = True
                break
            a = c.adts.get(pth)
            if a is not None and depth < 6:
                for v in a["variants"]:
                    for f in v["fields"]:
                        if bears_code(f["ty"], depth + 1):
                            res = True
                            break
                    if res:
                        break
            if res:
                break
        memo[ty] = res
        return res

    n_fields = 0
    n_types = 0
    for tname, imp in sorted(dep_impls.items()):
        adt = c.adts.get(tname)
        if adt is None:
            continue      # bool etc.
        n_types += 1
        methods = [F.fn(p) for p in imp["items"]]
        methods = [m for m in methods if m is not None]
        bodies = []
        for m in methods:
            bodies.append(m)
            bodies += F.closures_of(m)
        # touched fields: (variant or None, field name)
        touched = set()
        for m in methods:          # only the method bodies project from self = _1
            used = set()
            for bi, si, dst, rv, s in m.assigns():
                for o in mir.rvalue_operands(rv):
                    l = op_local(o)
                    if l is not None:
                        used.add(l)
            for cl in m.calls():
                for a in cl.args:
                    l = op_local(a)
                    if l is not None:
                        used.add(l)
            for blk in m.blocks:
                t = blk["t"]
                if t["k"] == "switch":
                    l = op_local(t["discr"])
                    if l is not None:
                        used.add(l)
            for bi, si, dst, rv, s in m.assigns():
                pl = None
                if "ref" in rv:
                    pl = rv["ref"]
                elif "use" in rv:
                    pl = op_place(rv["use"])
                elif "discr" in rv:
                    continue
                if not pl or pl["l"] != 1:
                    continue
                variant = None
                for e in pl.get("p", []):
                    if e[0] == "downcast":
                        variant = e[1]
                    elif e[0] == "field":
                        # the bound local must be used later (a `name: _` or unused binding does not count)
                        if dst["l"] in used or dst["l"] == 0 or dst.get("p"):
                            touched.add((variant, e[2]))
                        break
        # accessor methods: `self.value()` -- a local method of T called on self whose body projects a field
        for m in methods:
            for cl in m.calls():
                g = F.fn(cl.callee()) if cl.t["func"].get("local") or cl.t["func"].get("res_local") else None
                if g is None or g in methods or mir.strip_generics(g.d.get("impl_self") or "") != tname:
                    continue
                if not cl.args or rules.place_base_chain(m, op_local(cl.args[0])) != 1:
                    continue
                for bi, si, dst, rv, s in g.assigns():
                    pl = rv.get("ref") or (op_place(rv["use"]) if "use" in rv else None)
                    if pl and pl["l"] == 1:
                        variant = None
                        for e in pl.get("p", []):
                            if e[0] == "downcast":
                                variant = e[1]
                            elif e[0] == "field":
                                touched.add((variant, e[2]))
                                break
        single = len(adt["variants"]) == 1 and adt["kind"] == "Struct"
        for v in adt["variants"]:
            for f in v["fields"]:
                if not bears_code(f["ty"]):
                    continue
                n_fields += 1
                vname = None if single else v["name"]
                is_touched = (vname, f["name"]) in touched
                label = "%s%s.%s" % (tname.split("::")[-1], ("::" + vname) if vname else "", f["name"])
                key = "%s|%s" % (rule, label)
                where = adt.get("span")
                if is_touched:
                    rep.ob(rule, "%s is visited by the dependency walk" % label, "ok", "", where, fn=tname, key=key)
                else:
                    ex = EXEMPT.get((tname, vname, f["name"]))
                    if ex:
                        rep.ob(rule, "%s is visited by the dependency walk" % label, "exempt", ex, where, fn=tname, key=key)
                    else:
                        rep.ob(rule, "%s is visited by the dependency walk" % label, "violated",
                               "field of type `%s` can contain variable uses or name a variable the statement declares, but neither dependencies() nor "
                               "supplies() of %s reads it: a closure whose body uses a variable only there does not capture it (run-time `load before "
                               "store`), and a name declared there is taken for a captured one (make_function fails on the missing capture)" % (
                                   f["ty"].replace("compiler::ast::", ""), tname.split("::")[-1]), where, fn=tname, key=key)
    rep.floor(rule + " types with a dependency walk", n_types, 20)
    rep.floor(rule + " code-bearing fields", n_fields, 40)
    rep.extra[rule + " code-bearing fields"] = n_fields


def _strip_ty(ty):
    t = ty.strip()
    changed = True
    while changed:
        changed = False
        if t.startswith("&"):
            t = re.sub(r"^&('\w+\s+)?(mut\s+)?", "", t)
            changed = True
        if t.startswith("*const ") or t.startswith("*mut "):
            t = t.split(" ", 1)[1]
            changed = True
        m = re.match(r"^alloc::boxed::Box<(.*)>$", t)
        if m:
            t = m.group(1)
            changed = True
    return mir.strip_generics(t).replace("<'_>", "")


def deep(F, rep, rule):
    """A Dependencies impl either hands a child node to the child's own dependencies() / net_dependencies(), or -- if it reaches into the child and
    reads its fields itself -- reads *all* of the child's code-bearing fields.  (`rung.body.net_dependencies()` on a nested `else if` without
    `rung.value` drops the condition's variables from the capture list.)"""
    c = F.crates["compiler"]
    dep_types = {}
    for i in c.impls:
        if i.get("trait") == DEP:
            dep_types[mir.strip_generics(i["self"]).replace("<'_>", "")] = i
    n = 0
    for tname, imp in sorted(dep_types.items()):
        methods = [F.fn(p) for p in imp["items"]]
        bodies = []
        for m in methods:
            if m is not None:
                bodies += [m] + F.closures_of(m)
        reads = {}
        for m in bodies:
            for bi, si, dst, rv, s_ in m.assigns():
                pl = rv.get("ref") or (op_place(rv["use"]) if "use" in rv else None) or rv.get("discr")
                if not pl or pl["l"] == 1 and m.kind != "Closure":
                    continue
                proj = pl.get("p", [])
                k = 0
                while k < len(proj) and proj[k][0] in ("deref", "downcast"):
                    k += 1
                if k >= len(proj) or proj[k][0] != "field":
                    continue
                owner = _strip_ty(m.locals[pl["l"]])
                if owner in dep_types and owner in c.adts and c.adts[owner]["kind"] == "Struct":
                    reads.setdefault(owner, {}).setdefault(proj[k][2], s_.get("sp"))
        for owner, fields in sorted(reads.items()):
            adt = c.adts[owner]
            code_fields = [f["name"] for f in adt["variants"][0]["fields"] if _bears_code_simple(c, dep_types, f["ty"])]
            missing = [f for f in code_fields if f not in fields and (owner, None, f) not in EXEMPT]
            n += 1
            rep.ob(rule, "%s reaches into a child %s by hand and reads all of its code-bearing fields" % (tname.split("::")[-1], owner.split("::")[-1]),
                   "violated" if missing else "ok",
                   ("reads %s but not %s: what those fields use is missing from the capture list (delegate to the child's own dependencies())" % (sorted(fields), missing)) if missing
                   else "reads %s" % sorted(fields), list(fields.values())[0], fn=tname, key="%s|%s|%s" % (rule, tname.split("::")[-1], owner.split("::")[-1]))
    rep.ob(rule, "dependency walks that read a child's fields themselves read all of them (%d hand-written descents)" % n, "ok", "", None, key=rule + "|summary")


def _bears_code_simple(c, dep_types, ty, depth=0):
    for pth in _PATH_RE.findall(ty):
        pth = pth.rstrip(":")
        if pth.startswith(STOP_PREFIX):
            continue
        if pth in dep_types:
            imp = dep_types[pth]
            if any(x.endswith(("::dependencies", "::supplies", "::net_dependencies")) for x in imp["items"]):
                return True
        a = c.adts.get(pth)
        if a is not None and depth < 5:
            for v in a["variants"]:
                for f in v["fields"]:
                    if _bears_code_simple(c, dep_types, f["ty"], depth + 1):
                        return True
    return False
