"""C03 (a) — error discipline in crate `compiler`: no diagnostic is dropped unread.

For every call whose result type is a Result carrying a diagnostic (anyhow::Error, Vec<anyhow::Error>,
pest errors), follow the result value through the MIR def-use chain and classify how the Err case is consumed:
  propagated  : `?` (Try::branch), returned, wrapped (context / to_err_vec / map_err / details..) and then propagated,
                pushed into an error vector, unwrap/expect (a panic is not a silent drop; it is C16's business)
  discarded   : `.ok()`, `.is_ok()`, `.is_err()`, `.unwrap_or*()`, `if let Ok(..) = ..` / `match` whose Err edge never reads the
                payload, a plain drop
A discarded diagnostic is a violation unless listed in rules/errdrop.json with a reason.
"""
import mir
import rules
from mir import op_local, op_const, op_place
from core import AnchorMissing

PROPAGATE = (
    "core::ops::try_trait::Try::branch", "compiler::VecErr::to_err_vec", "anyhow::Context::context", "anyhow::Context::with_context",
    "core::result::Result::map_err", "compiler::CompilationError::details", "compiler::CompilationError::details_lazy_message",
    "core::result::Result::map", "core::result::Result::and_then", "compiler::ast::map_err", "compiler::ast::map_err_messages",
    "core::result::Result::or_else", "core::convert::Into::into", "core::convert::From::from", "core::result::Result::inspect_err",
)
PANIC = ("core::result::Result::unwrap", "core::result::Result::expect", "core::result::Result::unwrap_unchecked")
DISCARD = ("core::result::Result::ok", "core::result::Result::is_ok", "core::result::Result::is_err", "core::result::Result::unwrap_or",
           "core::result::Result::unwrap_or_default", "core::result::Result::unwrap_or_else", "core::result::Result::is_ok_and",
           "core::result::Result::is_err_and", "core::result::Result::map_or", "core::result::Result::map_or_else", "core::result::Result::iter",
           "core::mem::drop")
SINK = ("alloc::vec::Vec::push", "alloc::vec::Vec::append", "alloc::vec::Vec::extend", "core::iter::traits::collect::Extend::extend")


def is_diag_result(ty):
    if not ty.startswith("core::result::Result<"):
        return False
    return "anyhow::Error" in ty or "pest::error::Error" in ty or "pest_consume::Error" in ty


def classify(fn, local, depth=0, seen=None):
    """How is the Result held in `local` consumed?  Returns set of (kind, where, detail)."""
    if seen is None:
        seen = set()
    if local in seen or depth > 8:
        return set()
    seen.add(local)
    out = set()
    used = False
    # returned
    if local == 0:
        return {("propagated", None, "returned")}
    for c in fn.calls():
        for i, a in enumerate(c.args):
            pl = op_place(a)
            if not pl or pl["l"] != local:
                continue
            proj = pl.get("p") or []
            if proj and any(e[0] == "field" for e in proj):
                # payload extracted and passed on: read
                out.add(("propagated", c.span, "payload passed to %s" % mir.short(c.callee())))
                used = True
                continue
            used = True
            if c.matches(PROPAGATE) and i == 0:
                if c.matches("core::ops::try_trait::Try::branch"):
                    out.add(("propagated", c.span, "?"))
                else:
                    out |= classify(fn, c.dst["l"], depth + 1, seen)
            elif c.matches(PANIC):
                out.add(("panic", c.span, mir.short(c.callee())))
            elif c.matches(DISCARD):
                out.add(("discarded", c.span, mir.short(c.callee())))
            elif c.matches(SINK):
                out.add(("propagated", c.span, "collected"))
            else:
                # passed (by value or reference) to some other function: assume it is handled there
                out.add(("passed", c.span, mir.short(c.callee())))
    for bi, si, dst, rv, s in fn.assigns():
        for o in mir.rvalue_operands(rv):
            pl = op_place(o)
            if not pl or pl["l"] != local:
                continue
            proj = pl.get("p") or []
            if "discr" in rv:
                continue
            used = True
            if any(e[0] == "field" for e in proj):
                # a payload is moved out: which variant?
                var = [e[1] for e in proj if e[0] == "downcast"]
                if var and var[0] == "Err":
                    out.add(("propagated", s.get("sp"), "Err payload read"))
                continue
            if "ref" in rv:
                out |= classify(fn, dst["l"], depth + 1, seen)
            elif dst["l"] == 0 and not dst.get("p"):
                out.add(("propagated", s.get("sp"), "returned"))
            elif "agg" in rv:
                out.add(("propagated", s.get("sp"), "stored in a value"))
            else:
                out |= classify(fn, dst["l"], depth + 1, seen)
    # matched on: look at the Err edge
    tests = []
    for bi, blk in enumerate(fn.blocks):
        t = blk["t"]
        if t["k"] != "switch":
            continue
        dl = op_local(t["discr"])
        for s in blk["s"]:
            if "d" in s and s["d"]["l"] == dl and "discr" in s["rv"] and s["rv"]["discr"]["l"] == local and not any(
                    e[0] == "field" for e in s["rv"]["discr"].get("p", [])):
                tests.append(bi)
    ok_edges = set()
    for bi in tests:
        t = fn.blocks[bi]["t"]
        ok_edges.add((bi, dict(t["targets"]).get("0", t["otherwise"])))
    for bi in tests:
        blk = fn.blocks[bi]
        t = blk["t"]
        # a re-test reached only through the Ok edge of another test of the same value (drop elaboration) is not a branch on Err
        others = {e for e in ok_edges if e[0] != bi}
        if others and bi not in fn.reachable(0, removed_edges=others):
            continue
        for s in [None]:
            if True:
                used = True
                err_t = dict(t["targets"]).get("1", t["otherwise"])
                ok_t = dict(t["targets"]).get("0", t["otherwise"])
                if err_t == ok_t:
                    continue
                region = fn.reachable(err_t, removed_edges={(bi, ok_t)})
                reads = False
                for b2, s2, d2, rv2, st2 in fn.assigns():
                    if b2 not in region:
                        continue
                    for o in mir.rvalue_operands(rv2):
                        pl = op_place(o)
                        if pl and pl["l"] == local and any(e[0] == "downcast" and e[1] == "Err" for e in pl.get("p", [])):
                            reads = True
                # payload read on the Err edge?
                if reads:
                    out.add(("propagated", t.get("sp"), "Err payload read on the Err edge"))
                elif fn.locals[0].startswith("core::result::Result<") and not any(b in region for b in rules.ok_return_blocks(fn)) and any(
                        b2 in region and d2["l"] == 0 and "agg" in rv2 and rv2["agg"].get("v") == "Err" for b2, s2, d2, rv2, st2 in fn.assigns()):
                    out.add(("propagated", t.get("sp"), "replaced by another diagnostic (the Err edge returns Err)"))
                elif not any(b in region for b in fn.return_blocks()):
                    out.add(("panic", t.get("sp"), "the Err edge diverges"))
                else:
                    out.add(("discarded", t.get("us") or t.get("sp"), "matched; the Err edge never reads the diagnostic"))
    if not used:
        out.add(("discarded", None, "result never used (dropped)"))
    return out


def run(F, rep, ctx):
    allow = ctx.rules("errdrop.json")
    allowed = {(e["function"], e["callee"]): e for e in allow["allowed"]}
    c = F.crates["compiler"]
    n_calls = 0
    n_prop = 0
    seen_keys = {}
    for f in c.fns:
        if "::parse::rules::" in f.path or f.path.startswith("<compiler::parser::Parser as pest"):
            continue
        for call in f.calls():
            if call.dst.get("p"):
                continue
            ty = f.locals[call.dst["l"]]
            if not is_diag_result(ty):
                continue
            if call.matches(PROPAGATE) or call.matches(("core::ops::try_trait::FromResidual::from_residual",)):
                continue      # wrappers are followed from their source
            if any(m in ("bail", "$crate::__anyhow", "anyhow", "ensure", "pest_consume::parser", "match_nodes") for m in call.macros):
                continue
            n_calls += 1
            kinds = classify(f, call.dst["l"])
            disc = [k for k in kinds if k[0] == "discarded"]
            if not disc:
                n_prop += 1
                continue
            fshort = mir.short(f.path)
            cshort = mir.short(call.callee())
            idx = seen_keys.get((fshort, cshort), 0)
            seen_keys[(fshort, cshort)] = idx + 1
            key = "C03.errdrop|%s|%s|#%d" % (fshort, cshort, idx)
            e = allowed.get((fshort, cshort))
            inst = "%s: the diagnostic of %s is not dropped" % (fshort, cshort)
            if e is not None:
                rep.ob("C03.errdrop", inst, "exempt", e["reason"], call.span, fn=f.path, key=key)
            else:
                rep.ob("C03.errdrop", inst, "violated", "the Err payload is discarded (%s): a compile-time diagnostic can be lost and the program accepted" % (
                    "; ".join(sorted({d[2] for d in disc}))), call.span, fn=f.path, key=key)
    rep.ob("C03.errdrop", "all other diagnostic-carrying results in crate compiler are propagated", "ok", "%d of %d call results" % (n_prop, n_calls), None,
           fn="compiler", key="C03.errdrop|summary")
    rep.extra["C03.errdrop call results examined"] = n_calls
    rep.extra["C03.errdrop propagated"] = n_prop
    rep.floor("C03.errdrop diagnostic-carrying call results", n_calls, 300)
