"""Which arithmetic primitive an operator implementation applies (C05 / C06).

Both numeric towers implement each operator by matching on the operand kinds and applying one Rust primitive per arm.  The
primitive is read off the MIR (calls to core::num methods / core::ops traits on i32, i128, u8, f64, and built-in BinOps) and
normalised to its mathematical operation: checked_add, AddWithOverflow, <i32 as Add>::add and `+` are all `add`;
checked_rem and `%` are `rem` (truncating); checked_rem_euclid is `rem_euclid` -- a different function on negative operands.
"""
import re
import mir

EXPECTED = {"Add": "add", "Sub": "sub", "Mul": "mul", "Div": "div", "Rem": "rem", "Shl": "shl", "Shr": "shr",
            "BitAnd": "bitand", "BitOr": "bitor", "BitXor": "bitxor"}
PREFIXES = ("checked_", "wrapping_", "overflowing_", "saturating_", "unchecked_", "strict_", "unbounded_")
BIN = {"Add": "add", "AddWithOverflow": "add", "AddUnchecked": "add", "Sub": "sub", "SubWithOverflow": "sub", "SubUnchecked": "sub",
       "Mul": "mul", "MulWithOverflow": "mul", "MulUnchecked": "mul", "Div": "div", "Rem": "rem", "Shl": "shl", "ShlUnchecked": "shl",
       "Shr": "shr", "ShrUnchecked": "shr", "BitAnd": "bitand", "BitOr": "bitor", "BitXor": "bitxor"}
NUM = ("i32", "i128", "u8", "f64")
# conversions / queries that are not the operator's arithmetic
NEUTRAL = ("from", "into", "try_from", "try_into", "to_string", "is_nan", "is_finite", "is_infinite", "abs_diff", "fmt", "clone", "eq", "ne",
           "partial_cmp", "cmp", "lt", "le", "gt", "ge", "from_str", "from_str_radix", "parse", "max_value", "min_value", "default", "neg", "not")


_depth = [0]


def base_ops(F, bodies):
    """{base operation: [(primitive as written, span)]} over the given MIR bodies."""
    out = {}
    for g in bodies:
        for c in g.calls():
            nm = mir.strip_generics(c.callee())
            m = re.search(r"core::num::<impl (i32|i128|u8)>::(\w+)", nm) or re.search(r"(?:core|std)::f64::<impl (f64)>::(\w+)", nm)
            if m:
                meth = m.group(2)
                for p in PREFIXES:
                    if meth.startswith(p):
                        meth = meth[len(p):]
                        break
                if meth not in NEUTRAL:
                    out.setdefault(meth, []).append((m.group(0), c.span))
                continue
            # a helper the crate defines on the number type itself (`<i32 as ExactShl>::exact_shl`): what its own body applies is what the
            # operator applies here; the helper's closures (where a result is verified, e.g. shifted back and compared) are not the operation
            hm = re.match(r"<(i32|i128|u8|f64) as (?!core::|std::)", nm)
            if hm:
                h = None
                for nm2 in [c.callee()] + sorted(getattr(c, "names", [])):
                    h = F.fn(nm2)
                    if h is not None:
                        break
                if h is not None and _depth[0] < 2:
                    _depth[0] += 1
                    try:
                        for k, v in base_ops(F, [h]).items():
                            out.setdefault(k, []).extend((w + " in " + mir.short(h.path), c.span) for w, _sp in v)
                    finally:
                        _depth[0] -= 1
                    continue
            m = re.search(r"<&*(i32|i128|u8|f64) as core::ops::(?:arith|bit)::(\w+)", nm)
            if m and m.group(2) in EXPECTED:
                out.setdefault(EXPECTED[m.group(2)], []).append((m.group(0) + ">", c.span))
            elif m and m.group(2).endswith("Assign") and m.group(2)[:-6] in EXPECTED:
                out.setdefault(EXPECTED[m.group(2)[:-6]], []).append((m.group(0) + ">", c.span))
        for bi, si, dst, rv, s in g.assigns():
            if "bin" in rv and rv.get("lty") in NUM and rv["bin"] in BIN:
                out.setdefault(BIN[rv["bin"]], []).append(("`%s` on %s" % (rv["bin"], rv["lty"]), s.get("us") or s.get("sp")))
    return out


def check(F, rep, rule, side, trait, fn):
    bodies = [fn] + F.closures_of(fn)
    ops = base_ops(F, bodies)
    want = EXPECTED[trait]
    extra = {k: v for k, v in ops.items() if k != want}
    n = len(ops.get(want, []))
    rep.ob(rule, "%s %s applies only the `%s` primitive to its operands" % (side, trait, want), "ok" if n and not extra else "violated",
           "%d `%s` sites; other arithmetic: %s" % (n, want, {k: v[0] for k, v in extra.items()}), fn.span, fn=fn.path,
           key="%s|%s|%s" % (rule, side, trait))
    return n
