"""C11 — modules initialise once and share one instance (necessary structural conditions).

 1. one spelling of the module cache key (`<path>#__module__`) at every construction site,
    and `#` + the module function's name as the compiler emits / the interpreter starts it;
 2. look-before-run in the Module arm of process_jump_request; insert after run on all Ok paths;
 3. shared instance: the module value is only ever copied with Gc::clone (pointer copy);
 4. exports are write-once: only MScriptFile::add_export mutates an export map, only through update_once;
 5. Import::compile queues a compilation only under CompilationLock::can_compile, then marks it;
 6. only `export`-flagged declarations reach Export::add; ModuleType::get_property reads exported_members only.
"""
import re
import mir
import rules
from mir import op_local, op_const, op_place
from core import AnchorMissing

GC_CLONE = "<gc::Gc<T> as core::clone::Clone>::clone"
PASS = {"core::ops::deref::Deref::deref", "core::ops::deref::DerefMut::deref_mut", "core::cell::RefCell::borrow",
        "core::cell::RefCell::borrow_mut", "core::cell::RefCell::new", "alloc::borrow::ToOwned::to_owned",
        "core::clone::Clone::clone", "gc::GcCell::borrow", rules.TRY_BRANCH}


def need(F, path):
    f = F.fn(path)
    if f is None:
        raise AnchorMissing(path)
    return f


def variant_index(F, adt, name):
    a = F.adt(adt)
    if a is None:
        raise AnchorMissing(adt)
    for i, v in enumerate(a["variants"]):
        if v["name"] == name:
            return i
    raise AnchorMissing("%s::%s" % (adt, name))


def variant_edge(fn, sw_bb, idx):
    t = fn.term(sw_bb)
    d = dict(t["targets"])
    return d.get(str(idx), t["otherwise"])


def non_log(where_macros):
    return not any(m.startswith(("log", "$crate::log", "$crate::__log", "eprintln", "println", "bail", "$crate::__anyhow",
                                 "panic", "unreachable", "assert", "write", "$crate::__private_api")) for m in (where_macros or []))


def key_templates(fn):
    """fmt templates of non-logging, non-error `format!` calls in `fn` (with the statement)."""
    out = []
    for bi, si, s in fn.stmts():
        if "rv" not in s:
            continue
        mc = s.get("mc") or []
        if "format" not in mc or not non_log([m for m in mc if m != "format"]):
            continue
        # only templates expanded directly from a user-written format! (not nested in log!/bail!)
        for o in mir.rvalue_operands(s["rv"]):
            k = op_const(o)
            if k and "txt" in k and k["ty"].startswith("&[u8;"):
                p = rules.fmt_template_pieces(k["txt"])
                if p is not None:
                    out.append((p, s.get("us") or s.get("sp")))
    return out


def clones_on_trace(fn, local, stop_calls):
    """All Clone::clone calls met while slicing `local` backwards (through PASS)."""
    seen = set()
    out = []
    work = [local]
    while work:
        l = work.pop()
        if l in seen:
            continue
        seen.add(l)
        for d in rules.defs_of(fn, l):
            if d[0] == "call":
                c = d[4]
                if c in stop_calls:
                    continue
                if c.matches("core::clone::Clone::clone"):
                    out.append(c)
                if c.matches(tuple(PASS)) and c.args and op_local(c.args[0]) is not None:
                    work.append(op_local(c.args[0]))
            else:
                rv = d[4]
                for o in mir.rvalue_operands(rv):
                    if op_local(o) is not None:
                        work.append(op_local(o))
    return out


def run(ctx, rep):
    F = ctx.facts("default", ["bytecode", "compiler"])
    rep.explain("C11: literal agreement of the module-cache key, guarded-by/dominator rules in Program::process_jump_request "
                "(cache lookup before run, insert after run), who-may-mutate on export maps (type-resolved borrow_mut sites), "
                "guarded-by on queue_compilation and Export::add.")
    rep.assume("path strings built at compile time and at run time denote the same file (string normalisation is value-level, not decided)")

    # ---- 1. key spelling -------------------------------------------------------
    imp = need(F, "<compiler::ast::import::Import as compiler::ast::Compile>::compile")
    addf = need(F, "bytecode::interpreter::Program::add_file")
    exe = need(F, "bytecode::interpreter::Program::execute")
    filec = [f for f in F.find("compiler::ast::Compile::compile") if "compiler::parser::File" in f.path]
    if len(filec) != 1:
        raise AnchorMissing("impl Compile for compiler::parser::File")
    filec = filec[0]
    temps = []
    for f in (imp, addf, exe):
        ts = key_templates(f)
        temps += [(f, p, w) for p, w in ts]
    rep.floor("C11.key templates", len(temps), 5)
    suffixes = set()
    for f, p, w in temps:
        ok = len(p) == 2 and p[0] == "{}" and p[1].startswith("#")
        if ok:
            suffixes.add(p[1])
        rep.ob("C11.key-spelling", "key template in %s is '{path}#<fn>'" % mir.short(f.path), "ok" if ok else "violated",
               "template pieces %s" % p, w, fn=f.path, key="C11.key-spelling|%s|%d" % (mir.short(f.path), [x for x in temps if x[0] is f].index((f, p, w))))
    # module function name: compiler side
    names = []
    for bi, si, dst, rv, s in filec.assigns():
        if "agg" in rv and rv["agg"].get("adt") == "compiler::ast::CompiledFunctionId" and rv["agg"]["v"] == "Custom":
            tp = rules.origin_calls(filec, op_local(rv["ops"][0]), transparent=set())
            for c in tp:
                names += [x[1] for x in rules.literal_of(filec, c.args[0]) if x[0] == "str"]
    # interpreter side: name passed to run_function in execute
    rnames = []
    for c in exe.calls_to("bytecode::file::MScriptFile::run_function"):
        o = rules.origin_calls(exe, op_local(c.args[1]), transparent=PASS - {"alloc::borrow::ToOwned::to_owned"})
        for oc in o:
            rnames += [x[1] for x in rules.literal_of(exe, oc.args[0]) if x[0] == "str"]
    agree = len(suffixes) == 1 and len(set(names)) == 1 and set(names) == set(rnames) and suffixes == {"#" + names[0]}
    rep.ob("C11.key-spelling", "all key sites agree and equal '#' + module function name",
           "ok" if agree else "violated",
           "suffixes=%s compiler emits function %s, interpreter starts %s" % (sorted(suffixes), names, rnames), exe.span, fn=exe.path)

    # ---- 1b. every import statement runs the module loader ----------------------------------------------------------
    # `import m`, `import a from m` and `import type T from m` are all the *first import* of m when nothing else imported it: each
    # Ok return of Import::compile must have emitted the module_entry instruction (a statement compiled to nothing never initialises m,
    # or initialises it late, at a later import).
    import opcodes
    me = [c for f, nm, sp, c in opcodes.instruction_literals(F) if f is imp and nm == "module_entry"]
    rep.floor("C11.module_entry emission sites in Import::compile", len(me), 2)
    oks = rules.ok_return_blocks(imp)
    bad = [b for b in oks if not rules.call_dominates(imp, me, b)] if me else oks
    # the argument of module_entry is the key template string
    keyed = 0
    for c in me:
        reach = imp.reachable(c.target) if c.target is not None else set()
        if any(x.matches("alloc::fmt::format") for x in imp.calls() if rules.call_dominates(imp, [x], c.bb)):
            keyed += 1
    rep.ob("C11.import-runs-module", "every form of import (module, names, type-only) emits module_entry for its module on every Ok path",
           "ok" if oks and not bad and keyed == len(me) else "violated", "Ok returns not preceded by a module_entry emission: %s" % bad, imp.span, fn=imp.path,
           key="C11.import-runs-module|compile")

    # ---- 2. look before run ------------------------------------------------------
    p = need(F, "bytecode::interpreter::Program::process_jump_request")
    JD = "bytecode::instruction::JumpRequestDestination"
    mi = variant_index(F, JD, "Module")
    t0 = p.term(0)
    if t0["k"] != "switch":
        raise AnchorMissing("process_jump_request does not start with a match on the destination")
    tm = variant_edge(p, 0, mi)
    region = p.reachable(tm)
    runs = [c for c in p.calls_to("bytecode::interpreter::Program::process_standard_jump_request") if c.bb in region]
    gets = []
    for c in p.calls_to("std::collections::hash::map::HashMap::get"):
        if c.bb not in region:
            continue
        recv = rules.trace_paths(p, op_local(c.args[0]), transparent=PASS)
        key = rules.trace_paths(p, op_local(c.args[1]), transparent=PASS)
        if any(fs and fs[0] == "module_cache" for (_, fs) in recv) and any("@Module" in fs for (_, fs) in key):
            gets.append(c)
    rep.floor("C11.module arm: standard-jump calls", len(runs), 1)
    if len(gets) != 1:
        rep.ob("C11.look-before-run", "cache lookup keyed by the module path", "violated" if not gets else "undecided",
               "found %d HashMap::get(module_cache, path) in the Module arm" % len(gets), p.span, fn=p.path)
    else:
        g = gets[0]
        sw = rules.find_discr_switch(p, g.target, g.dst["l"])
        if sw is None:
            rep.ob("C11.look-before-run", "lookup result is tested", "violated", "result of the cache lookup is not matched on", g.span, fn=p.path)
        else:
            some_t = variant_edge(p, sw, 1)
            none_t = variant_edge(p, sw, 0)
            for r in runs:
                only_on_miss = r.bb not in p.reachable(tm, removed_edges={(sw, none_t)})
                rep.ob("C11.look-before-run", "module body is run only on a cache miss", "ok" if only_on_miss else "violated",
                       "process_standard_jump_request reachable without passing the None edge of the cache lookup" if not only_on_miss else "",
                       r.span, fn=p.path)
            # hit: returns the cached instance
            hit_region = p.reachable(some_t, removed_blocks={r.bb for r in runs})
            oks = [(bi, si, dst, rv, s) for bi, si, dst, rv, s in p.assigns()
                   if bi in hit_region and dst["l"] == 0 and "agg" in rv and rv["agg"].get("v") == "Ok"]
            if not oks:
                rep.ob("C11.hit-returns-cached", "cache hit returns Ok(cached module)", "violated", "no Ok return on the hit path", g.span, fn=p.path)
            for bi, si, dst, rv, s in oks:
                oc = rules.origin_calls(p, op_local(rv["ops"][0]), transparent=PASS)
                # look through the two wrapping aggregates
                l = op_local(rv["ops"][0])
                wrap = []
                for _ in range(3):
                    ds = [d for d in rules.defs_of(p, l) if d[0] == "assign" and "agg" in d[4]]
                    if len(ds) == 1:
                        wrap.append(ds[0][4]["agg"].get("v"))
                        l = op_local(ds[0][4]["ops"][0])
                    else:
                        break
                oc = rules.origin_calls(p, l, transparent=PASS)
                ok = wrap[:2] == ["Value", "Module"] and len(oc) == 1 and oc[0] is g
                cl = clones_on_trace(p, l, [g])
                shared = all(c.res and mir.strip_generics(c.res).startswith("<gc::Gc<T> as core::clone::Clone>") for c in cl) and cl
                rep.ob("C11.hit-returns-cached", "cache hit returns Ok(Value(Module(<cached>)))", "ok" if ok else "violated",
                       "wrapping=%s source=%s" % (wrap, [mir.short(x.callee()) for x in oc]), s.get("sp"), fn=p.path)
                rep.ob("C11.shared-instance", "cached module is copied by Gc::clone (pointer copy) only", "ok" if shared else "violated",
                       "clone calls: %s" % [x.res for x in cl], s.get("sp"), fn=p.path)
            # miss: insert after run
            for r in runs:
                te = rules.try_edges(p, r)
                if te is None:
                    rep.ob("C11.insert-after-run", "module run result is propagated with `?`", "undecided", "", r.span, fn=p.path)
                    continue
                cont, brk, tsw = te
                ins = []
                for c in p.calls_to("std::collections::hash::map::HashMap::insert"):
                    if c.bb not in p.reachable(cont):
                        continue
                    recv = rules.trace_paths(p, op_local(c.args[0]), transparent=PASS)
                    key = rules.trace_paths(p, op_local(c.args[1]), transparent=PASS)
                    val = rules.trace_paths(p, op_local(c.args[2]), transparent=PASS)
                    if any(fs and fs[0] == "module_cache" for (_, fs) in recv) and any("@Module" in fs for (_, fs) in key):
                        ins.append((c, val))
                after = p.reachable(cont)
                oks2 = [(bi, s) for bi, si, dst, rv, s in p.assigns()
                        if bi in after and dst["l"] == 0 and "agg" in rv and rv["agg"].get("v") == "Ok"]
                if not ins:
                    rep.ob("C11.insert-after-run", "module is inserted into the cache after its first run", "violated",
                           "no module_cache.insert(path, ..) after the run", r.span, fn=p.path)
                for bi, s in oks2:
                    dom = ins and rules.edge_dominated(p, bi, {(c.bb, c.target) for c, _ in ins})
                    rep.ob("C11.insert-after-run", "every Ok return after the run passes the cache insert", "ok" if dom else "violated", "",
                           s.get("sp"), fn=p.path)
                for c, val in ins:
                    # the inserted value is the module the run returned
                    okv = any(o == ("call", r.bb) and "@Module" in fs for (o, fs) in val)
                    cl = clones_on_trace(p, op_local(c.args[2]), [r])
                    # a value that is not the run's result at all (a freshly allocated copy, say) is not shared either
                    shared = okv and all(x.res and mir.strip_generics(x.res).startswith("<gc::Gc<T> as core::clone::Clone>") for x in cl)
                    rep.ob("C11.insert-after-run", "the inserted value is the module returned by the run", "ok" if okv else "violated",
                           "value derives from %s" % sorted(str(x) for x in val), c.span, fn=p.path)
                    rep.ob("C11.shared-instance", "inserted module is copied by Gc::clone only", "ok" if shared else "violated",
                           "clone calls: %s" % [x.res for x in cl], c.span, fn=p.path)

    # ---- 3. shared instance at the sources ----------------------------------------
    for path, field in (("bytecode::file::MScriptFile::get_exports", "exports"),):
        f = need(F, path)
        cl = f.calls_to("core::clone::Clone::clone")
        tp = rules.trace_paths(f, 0, transparent=PASS)
        ok = tp == {(("arg", 1), (field,))} and len(cl) == 1 and cl[0].res and \
            mir.strip_generics(cl[0].res).startswith("<gc::Gc<T> as core::clone::Clone>")
        rep.ob("C11.shared-instance", "%s returns Gc::clone(&self.%s)" % (mir.short(path), field), "ok" if ok else "violated",
               "returns %s via %s" % (sorted(str(x) for x in tp), [c.res for c in cl]), f.span, fn=f.path)
    f = need(F, "bytecode::context::Ctx::get_file_module")
    aggs = [(bi, si, dst, rv, s) for bi, si, dst, rv, s in f.assigns() if "agg" in rv and rv["agg"].get("v") == "Module" and dst["l"] == 0]
    ok = False
    detail = ""
    if len(aggs) == 1:
        l = op_local(aggs[0][3]["ops"][0])
        oc = rules.origin_calls(f, l, transparent=PASS)
        cl = clones_on_trace(f, l, [])
        ok = len(oc) == 1 and oc[0].matches("bytecode::file::MScriptFile::get_exports") and \
            all(x.res and mir.strip_generics(x.res).startswith("<gc::Gc<T> as core::clone::Clone>") for x in cl)
        detail = "source=%s clones=%s" % ([mir.short(x.callee()) for x in oc], [x.res for x in cl])
    rep.ob("C11.shared-instance", "Ctx::get_file_module wraps the file's export map (Gc::clone only)", "ok" if ok else "violated", detail, f.span, fn=f.path)
    for f in (addf, exe):
        for c in f.calls_to("std::collections::hash::map::HashMap::insert"):
            recv = rules.trace_paths(f, op_local(c.args[0]), transparent=PASS)
            if not any(fs and fs[0] == "module_cache" for (_, fs) in recv):
                continue
            oc = rules.origin_calls(f, op_local(c.args[2]), transparent=PASS)
            cl = clones_on_trace(f, op_local(c.args[2]), [])
            ok = len(oc) == 1 and oc[0].matches("bytecode::file::MScriptFile::get_exports") and \
                all(x.res and mir.strip_generics(x.res).startswith("<gc::Gc<T> as core::clone::Clone>") for x in cl)
            rep.ob("C11.shared-instance", "%s seeds the cache with the file's own export map" % mir.short(f.path), "ok" if ok else "violated",
                   "source=%s clones=%s" % ([mir.short(x.callee()) for x in oc], [x.res for x in cl]), c.span, fn=f.path,
                   key="C11.shared-instance|%s|seed@%s" % (mir.short(f.path), "miss" if "new_file" in [f.local_name(x) for x in rules.chain_locals(f, op_local(oc[0].args[0]))] else "hit") if oc else None)

    # ---- 3b. a module is in the cache from the moment its file is known ----------------
    # The entry of module_cache made when the file is opened (its export table still empty, and shared) is what marks the module as
    # *initialising*: an import of it from inside its own top-level code (an import cycle) is a cache hit, and the module body is not entered a
    # second time.  Without it both modules of a cycle run twice ("Double export").  process_jump_request's insert after the run comes too late.
    INS = "std::collections::hash::map::HashMap::insert"
    fiu = [c for c in addf.calls_to(INS) if any(fs and fs[0] == "files_in_use" for (_, fs) in rules.trace_paths(addf, op_local(c.args[0]), transparent=PASS))]
    mci = {c.bb for c in addf.calls_to(INS) if any(fs and fs[0] == "module_cache" for (_, fs) in rules.trace_paths(addf, op_local(c.args[0]), transparent=PASS))}
    rep.floor("C11.once|initialising-mark files_in_use inserts in Program::add_file", len(fiu), 1)
    rets = {i for i, blk in enumerate(addf.blocks) if blk["t"]["k"] == "return"}
    for i, c in enumerate(fiu):
        before = any(addf.dominates(b, c.bb) for b in mci)
        after = not (addf.reachable(c.target, removed_blocks=mci) & rets) if c.target is not None else False
        rep.ob("C11.once", "Program::add_file: a file that becomes known is entered into module_cache on the same path (the mark of a module that is initialising)",
               "ok" if before or after else "violated",
               "" if before or after else "the file is registered in files_in_use and add_file returns without an entry in module_cache: a module imported again while its own "
               "top-level code runs (an import cycle between two files read from disk) is a cache miss and runs a second time, then dies with `Double export`",
               c.span, fn=addf.path, key="C11.once|initialising-mark#%d" % i)

    # ---- 4. exports are write-once -------------------------------------------------
    muts = []
    for f in F.crates["bytecode"].fns:
        for c in f.calls():
            if c.matches("gc::GcCell::borrow_mut") and (c.t["func"].get("ga") or [None])[0] == "bytecode::stack::VariableMapping":
                muts.append((f, c))
    rep.floor("C11.export-map mutable borrows", len(muts), 1)
    for f, c in muts:
        ok = f.path == "bytecode::file::MScriptFile::add_export"
        rep.ob("C11.exports-write-once", "GcCell<VariableMapping>::borrow_mut only in MScriptFile::add_export",
               "ok" if ok else "violated", "mutable borrow of an export map in %s" % f.path, c.span, fn=f.path)
    ae = need(F, "bytecode::file::MScriptFile::add_export")
    vm_mut = []
    for c in ae.calls():
        g = F.fn(c.callee()) if c.t["func"].get("local") else None
        if g is not None and g.d.get("impl_self") == "bytecode::stack::VariableMapping" and (g.d.get("inputs") or [""])[0].startswith("&mut"):
            vm_mut.append(c)
    ok = [mir.strip_generics(c.callee()) for c in vm_mut] == ["bytecode::stack::VariableMapping::update_once"]
    rep.ob("C11.exports-write-once", "add_export mutates the map through update_once only", "ok" if ok else "violated",
           "mutating calls: %s" % [mir.short(c.callee()) for c in vm_mut], ae.span, fn=ae.path)
    uo = need(F, "bytecode::stack::VariableMapping::update_once")
    ins = uo.calls_to("std::collections::hash::map::HashMap::insert")
    ok = False
    if len(ins) == 1:
        sw = rules.find_discr_switch(uo, ins[0].target, ins[0].dst["l"])
        if sw is not None:
            some_t = variant_edge(uo, sw, 1)
            reach = uo.reachable(some_t)
            ok_ret = [bi for bi, si, dst, rv, s in uo.assigns() if bi in reach and dst["l"] == 0 and "agg" in rv and rv["agg"].get("v") == "Ok"]
            err_ret = [bi for bi, si, dst, rv, s in uo.assigns() if bi in reach and dst["l"] == 0 and "agg" in rv and rv["agg"].get("v") == "Err"]
            ok = not ok_ret and bool(err_ret)
    rep.ob("C11.exports-write-once", "update_once fails when the name is already present", "ok" if ok else "violated", "", uo.span, fn=uo.path)

    # ---- 5. compile queue ------------------------------------------------------------
    qs = imp.calls_to("compiler::ast::CompilationState::queue_compilation")
    rep.floor("C11.queue_compilation sites", len(qs), 2)
    cans = imp.calls_to("compiler::parser::CompilationLock::can_compile")
    marks = imp.calls_to("compiler::parser::CompilationLock::mark_compiled")
    for q in qs:
        verdict, info = rules.guarded_by_bool(imp, [q.bb], [c.dst["l"] for c in cans], want=True)
        rep.ob("C11.queue-once", "queue_compilation guarded by CompilationLock::can_compile()", verdict, str(info), q.span, fn=imp.path)
        # followed by mark_compiled on all paths: from q, returns are unreachable when mark blocks are removed
        rem = {m.bb for m in marks}
        leak = [b for b in imp.return_blocks() if b in imp.reachable(q.target, removed_blocks=rem)] if q.target is not None else [0]
        # the lock that is marked is the lock that was tested
        rep.ob("C11.queue-once", "queue_compilation is followed by mark_compiled on every path", "ok" if not leak and marks else "violated", "", q.span, fn=imp.path)
    cc = need(F, "compiler::parser::CompilationLock::can_compile")
    nots = [rv for bi, si, dst, rv, s in cc.assigns() if "un" in rv and rv["un"] == "Not"]
    gets = cc.calls_to("core::cell::Cell::get")
    rep.ob("C11.queue-once", "can_compile() == !flag", "ok" if len(nots) == 1 and len(gets) == 1 else "violated", "", cc.span, fn=cc.path)
    mk = need(F, "compiler::parser::CompilationLock::mark_compiled")
    sets = mk.calls_to("core::cell::Cell::set")
    okm = len(sets) == 1 and (op_const(sets[0].args[1]) or {}).get("int") == "1"
    rep.ob("C11.queue-once", "mark_compiled() sets the flag", "ok" if okm else "violated", "", mk.span, fn=mk.path)

    # ---- 6. only exported names reach the module type -----------------------------------
    callers = F.callers_of("compiler::ast::export::Export::add")
    fm = need(F, "compiler::ast::type::ModuleType::from_node")
    okc = {x[0].path for x in callers} == {fm.path}
    rep.floor("C11.Export::add call sites", len(callers), 2)
    rep.ob("C11.export-visibility", "Export::add is called only from ModuleType::from_node", "ok" if okc else "violated",
           "callers=%s" % sorted({x[0].path for x in callers}), fm.span, fn=fm.path)
    pushes = []
    for f in F.crates["compiler"].fns:
        for c in f.calls():
            if c.matches("core::cell::RefCell::borrow_mut") and (c.t["func"].get("ga") or [None])[0] == "alloc::vec::Vec<compiler::ast::ident::Ident>":
                pushes.append((f, c))
    rep.ob("C11.export-visibility", "the export list (RefCell<Vec<Ident>>) is mutably borrowed only in Export::add",
           "ok" if pushes and all(f.path == "compiler::ast::export::Export::add" for f, c in pushes) else "violated",
           "mutable borrows in %s" % sorted({f.path for f, c in pushes}), fm.span, fn=fm.path)
    tfn = need(F, "<compiler::ast::assignment::Assignment as compiler::ast::WalkForType>::type_from_node")
    for f, c in callers:
        if f is not fm:
            continue
        src = rules.origin_calls(fm, op_local(c.args[1]), transparent=PASS)
        if any(s.matches("compiler::ast::WalkForType::type_from_node") for s in src):
            # guard lives inside type_from_node: every Ok return is guarded by contains(export) == true
            cons = tfn.calls_to("compiler::ast::assignment::AssignmentFlag::contains")
            exps = tfn.calls_to("compiler::ast::assignment::AssignmentFlag::export")
            okarg = bool(cons) and all(any(e.bb == o[1] for e in exps for o in rules.origins(tfn, op_local(k.args[1]), transparent=set()) if o[0] == "call") for k in cons)
            okret = [bi for bi, si, dst, rv, s in tfn.assigns() if dst["l"] == 0 and "agg" in rv and rv["agg"].get("v") == "Ok"]
            verdict, info = rules.guarded_by_bool(tfn, okret, [k.dst["l"] for k in cons], want=True)
            if verdict == "ok" and not okarg:
                verdict = "violated"
                info = "the flag tested is not AssignmentFlag::export()"
            rep.ob("C11.export-visibility", "variables: type_from_node returns Ok only for `export`-flagged assignments", verdict, str(info), tfn.span, fn=tfn.path)
            # and add is on the Ok edge
            sw = None
            for s in src:
                if s.matches("compiler::ast::WalkForType::type_from_node"):
                    sw = rules.find_discr_switch(fm, s.target, s.dst["l"])
                    okedge = sw is not None and rules.edge_dominated(fm, c.bb, {(sw, variant_edge(fm, sw, 0))})
                    rep.ob("C11.export-visibility", "variables: Export::add only on the Ok edge of type_from_node", "ok" if okedge else "violated", "", c.span, fn=fm.path)
        else:
            ise = [k for k in fm.calls_to("core::option::Option::is_some_and")
                   if (lambda cd: cd and "ClassFlags::is_export" in cd)(rules_fn_arg(fm, k.args[1]))]
            verdict, info = rules.guarded_by_bool(fm, [c.bb], [k.dst["l"] for k in ise], want=True) if ise else ("violated", "no ClassFlags::is_export test")
            rep.ob("C11.export-visibility", "classes: Export::add guarded by class_flags.is_some_and(ClassFlags::is_export)", verdict, str(info), c.span, fn=fm.path)
    gp = need(F, "compiler::ast::type::ModuleType::get_property")
    fields = set()
    for bi, si, dst, rv, s in gp.assigns():
        pl = rv.get("ref") or op_place(rv.get("use")) if ("ref" in rv or "use" in rv) else None
        if pl and pl["l"] == 1:
            for e in pl.get("p", []):
                if e[0] == "field":
                    fields.add(e[2])
    rep.ob("C11.export-visibility", "ModuleType::get_property reads exported_members only", "ok" if fields == {"exported_members"} else "violated",
           "fields read: %s" % sorted(fields), gp.span, fn=gp.path)

    # ---- 7. an export is the module's own variable cell, not a snapshot of its value -------------------------------------------
    from props import _cells
    en = need(F, "bytecode::instruction::implementations::export_name")
    regs = en.calls_to("bytecode::context::Ctx::register_export")
    rep.floor("C11.export-aliases register_export calls in export_name", len(regs), 1)
    for c in regs:
        _cells.origin_ok(rep, "C11.export-aliases", "export_name registers the variable's own cell (what the module writes later is what importers read)", en,
                         op_local(c.args[2]) if len(c.args) > 2 else None, ["bytecode::context::Ctx::load_local"], where=c.span)
    _cells.cell_creation(
        rep, "C11.export-aliases", F,
        allowed_creators={"bytecode::stack::PrimitiveFlagsPair::new", "bytecode::stack::PrimitiveModule::new"},
        allowed_new_callers={"bytecode::stack::Stack::register_variable_local", "bytecode::instruction::implementations::export_special"})
    queue_drained(F, rep)
    module_identity(F, rep)
    names_import_shares(F, rep)
    exports_declared_once(F, rep)
    modules_are_not_left_by_return(F, rep)
    exports_are_registered_by_module_level_code(F, rep)
    names_import_supplies_what_it_binds(F, rep)
    entry_is_spelled_like_an_import(ctx, rep)
    # `import typed from m` imports the name `typed`, not the type `d`
    from props import _keywords
    rep.floor("C11.keyword-boundary import keywords judged", _keywords.run(F, rep, "C11.keyword-boundary", only={"import_type", "import_standard", "import_names"}), 3)
    # "importers cannot reassign them": a write through the module - or through any alias of it, also one a function captured - is refused (C10's clauses)
    from props import C10 as _c10
    from core import Report as _Report
    tmp = _Report("C10", rep.tier)
    _c10.run(ctx, tmp)
    k_ = 0
    for o in tmp.obligations:
        if o["key"] in ("C10.guard|reassign-module-step", "C10.guard|opassign-module-step"):
            k_ += 1
            rep.ob("C11.exports-read-only", o["instance"], o["status"], o["detail"], o["where"], key=o["key"].replace("C10.guard", "C11.exports-read-only", 1), fn=o.get("fn"))
    rep.floor("C11.exports-read-only clauses", k_, 2)

def rules_fn_arg(fn, op):
    """Name of the function item passed as an argument (fn item constant)."""
    k = op_const(op)
    if k and "fn" in k:
        return k["fn"]
    l = op_local(op)
    if l is None:
        return None
    for d in rules.defs_of(fn, l):
        if d[0] == "assign" and "use" in d[4]:
            k = op_const(d[4]["use"])
            if k and "fn" in k:
                return k["fn"]
    return None


def queue_drained(F, rep):
    """Every module an import queued is compiled: CompilationState::compile_recursive_interior walks the whole queue.  The Option it tests at the
    head of the walk comes straight from the queue (`view.take()`, then `h.next`), not through a predicate (`filter`, `take_while`, ..) that could
    end the walk at a step that merely looks done and leave the steps behind it uncompiled."""
    f = need(F, "compiler::ast::CompilationState::compile_recursive_interior")
    STEP = "compiler::ast::CompilationStep"
    tested = []
    for bi, blk in enumerate(f.blocks):
        t = blk["t"]
        if t["k"] != "switch" or t.get("dty") != "isize":
            continue
        dl = op_local(t["discr"])
        for s in blk["s"]:
            if "d" in s and s["d"].get("l") == dl and "discr" in s["rv"] and not s["rv"]["discr"].get("p"):
                l = s["rv"]["discr"]["l"]
                if STEP in f.locals[l] and f.locals[l].strip().startswith("core::option::Option<") and bi in f.reachable(bi, removed_blocks=()) and any(
                        bi in f.reachable(sx) for sx in f.succs(bi)):
                    tested.append((bi, l))
    rep.floor("C11.queue-drained tests of the queue node in compile_recursive_interior", len(tested), 1)
    ALLOWED = ("core::option::Option::take", "core::mem::take", "core::mem::replace")
    for bi, l in tested:
        oc = rules.origin_calls(f, l)
        other = sorted({mir.short(c.callee()) for c in oc if not c.matches(ALLOWED)})
        rep.ob("C11.queue-drained", "the walk over the compilation queue ends only at the end of the queue", "violated" if other else "ok",
               ("the tested node goes through %s: a step that fails the predicate ends the walk and every module queued behind it is never compiled" % other) if other
               else "node comes from %s and the `next` links" % sorted({mir.short(c.callee()) for c in oc}), f.span, fn=f.path, key="C11.queue-drained|bb%d" % 0)


PATH_TRANSPARENT = ("std::path::Path::new", "std::path::Path::join", "std::path::Path::to_path_buf", "std::path::Path::with_extension",
                    "std::path::PathBuf::push", "core::convert::AsRef::as_ref", "core::ops::deref::Deref::deref", "core::clone::Clone::clone",
                    "core::convert::From::from", "core::convert::Into::into", "core::ops::try_trait::Try::branch", "anyhow::Context::context",
                    "core::iter::traits::iterator::Iterator::collect", "core::iter::traits::collect::FromIterator::from_iter",
                    "std::path::Path::parent", "alloc::borrow::ToOwned::to_owned")


def path_features(F):
    """(live, shadowed): the literal alternatives of the grammar rule path_feature (`.`, `..`) an import path can / cannot actually contain.
    PEG ordered choice: an alternative is dead when an earlier literal alternative is a prefix of it."""
    G = F.grammar()
    rules_ = {r["name"]: r for r in G["rules"]}
    if "import_path" not in rules_ or "path_feature" not in rules_:
        raise AnchorMissing("grammar rules import_path / path_feature")

    def alts(e):
        if e["k"] == "choice":
            return alts(e["a"]) + alts(e["b"])
        return [e]
    feats = []
    for a in alts(rules_["path_feature"]["expr"]):
        lit = None
        if a["k"] == "ident" and a["v"] in rules_ and rules_[a["v"]]["expr"]["k"] == "str":
            lit = rules_[a["v"]]["expr"]["v"]
        elif a["k"] == "str":
            lit = a["v"]
        feats.append((a.get("v"), lit))
    live, shadowed = [], []
    seen_lits = []
    for name, lit in feats:
        if lit is None:
            continue
        (shadowed if any(lit.startswith(x) for x in seen_lits) else live).append(lit)
        seen_lits.append(lit)
    return live, shadowed


def module_identity(F, rep):
    """A module is identified by the path its import spells (compile-time registry, run-time `<path>#__module__` key).  The grammar of
    import_path admits path features that do not name anything (`.`, `..`): two spellings of one file are one module only if the builder of
    the key neutralises every such feature the grammar can actually produce."""
    live, shadowed = path_features(F)
    rep.floor("C11.module-identity non-naming path features in the grammar", len(live) + len(shadowed), 2)
    want = {".": "CurDir", "..": "ParentDir"}
    pf = need(F, "compiler::ast::import::Import::path_from_parts")
    ip = need(F, "compiler::ast::import::<impl compiler::parser::Parser>::import_path") if F.fn("compiler::ast::import::<impl compiler::parser::Parser>::import_path") else None
    if ip is None:
        cands = [f for f in F.all_fns() if f.path.endswith("::import_path") and f.path.startswith("compiler::ast::import")]
        if len(cands) != 1:
            raise AnchorMissing("Parser::import_path")
        ip = cands[0]
    # who may build: every Import value takes its path from Parser::import_path, which takes it from path_from_parts
    n_src = 0
    okw = True
    for f in F.all_fns():
        if not f.path.startswith("compiler::"):
            continue
        for bi, si, dst, rv, s_ in f.assigns():
            if "agg" in rv and rv["agg"].get("adt", "").endswith("ast::import::Import") and rv["ops"]:
                # the path field: the PathBuf-typed operand
                for o in rv["ops"]:
                    l = op_local(o)
                    if l is not None and f.locals[l].endswith("path::PathBuf"):
                        n_src += 1
                        oc = rules.origin_calls(f, l, transparent=rules.TRANSPARENT | {rules.TRY_BRANCH, "compiler::VecErr::to_err_vec"})
                        if not (oc and all(c.matches(ip.path) or c.callee().endswith("::import_path") for c in oc)):
                            okw = False
    rep.floor("C11.module-identity Import values built", n_src, 2)
    rep.ob("C11.module-identity", "every Import statement takes its module path from Parser::import_path", "ok" if okw else "violated", "%d Import values" % n_src,
           ip.span, fn=ip.path, key="C11.module-identity|single-builder")
    calls_pf = ip.calls_to(pf.path)
    rep.ob("C11.module-identity", "Parser::import_path builds the path with Import::path_from_parts", "ok" if calls_pf else "violated", "", ip.span, fn=ip.path,
           key="C11.module-identity|import_path-uses-builder")
    # evidence in the builder (and its closures)
    bodies = [pf] + list(F.closures_of(pf))
    # std::path::Component is not a local ADT: its (stable, derive(PartialOrd)-relevant) variant order is written down here and cross-checked
    # against every downcast the MIR shows
    comp = F.adt("std::path::Component") or {"variants": [{"name": n} for n in ("Prefix", "RootDir", "CurDir", "ParentDir", "Normal")]}
    for g in [pf] + list(F.closures_of(pf)):
        for bi, si, dst, rv, s_ in g.assigns():
            pl = op_place(rv.get("use")) if "use" in rv else rv.get("ref")
            for e in (pl or {}).get("p", []):
                if e[0] == "downcast" and g.locals[pl["l"]].lstrip("&").replace("mut ", "").startswith("std::path::Component") \
                        and e is [x for x in pl["p"] if x[0] != "deref"][0] and comp["variants"][e[2]]["name"] != e[1]:
                    raise AnchorMissing("std::path::Component variant order")
    tested = set()
    canonical = False
    unknown = []
    uses_components = False
    for g in bodies:
        for c in g.calls():
            if c.matches(("std::path::Path::canonicalize", "std::fs::canonicalize")):
                canonical = True
            elif c.matches("std::path::Path::components"):
                uses_components = True
        # switch on a Component discriminant
        for bb, blk in enumerate(g.blocks):
            t = blk["t"]
            if t["k"] == "switch":
                dl = op_local(t["discr"])
                for s_ in blk["s"]:
                    if "d" in s_ and s_["d"]["l"] == dl and "discr" in s_["rv"] and "path::Component" in g.locals[s_["rv"]["discr"]["l"]] and comp:
                        names = [v["name"] for v in comp["variants"]]
                        tested |= {names[int(v)] for v, _ in t["targets"] if int(v) < len(names)}
        # == / != against a constant Component
        for c in g.calls():
            if c.matches(("core::cmp::PartialEq::ne", "core::cmp::PartialEq::eq")) and any("path::Component" in g.locals[op_local(a)] for a in c.args if op_local(a) is not None):
                for body in g.d.get("promoted", []) or []:
                    for blk in body.get("blocks", []):
                        for s_ in blk.get("s", []):
                            rv = s_.get("rv", {})
                            if "agg" in rv and rv["agg"].get("adt", "").endswith("path::Component"):
                                tested.add(rv["agg"].get("v"))
    # anything on the way from the import text to the result that is neither a plain path operation nor the evidence above
    for c in pf.calls():
        if c.matches(PATH_TRANSPARENT) or c.matches(("std::path::Path::components", "core::iter::traits::iterator::Iterator::filter",
                "compiler::parser::AssocFileData::get_source_file_name", "core::ops::try_trait::FromResidual::from_residual",
                "std::path::Path::canonicalize", "std::fs::canonicalize", "std::path::PathBuf::pop", "std::path::Path::file_name",
                "core::iter::traits::iterator::Iterator::next", "core::iter::traits::collect::IntoIterator::into_iter", "core::option::Option<T>::is_some", "core::option::Option::<T>::is_some")):
            continue
        unknown.append(mir.short(c.callee()))
    for lit in live:
        v = want.get(lit)
        if canonical or (v and v in tested and uses_components):
            verdict, why = "ok", ""
        elif unknown:
            verdict, why = "undecided", "calls not understood on the way: %s" % sorted(set(unknown))
        else:
            verdict, why = "violated", "`import m` and `import %s/m` register and initialise one file as two modules" % lit
        rep.ob("C11.module-identity", "the module path drops the `%s` feature the grammar lets an import spell" % lit, verdict, why, pf.span, fn=pf.path,
               key="C11.module-identity|feature|%s" % lit)
    for lit in shadowed:
        rep.ob("C11.module-identity", "the `%s` path feature cannot be spelled (an earlier alternative of path_feature always matches first)" % lit, "exempt",
               "shadowed in the PEG ordered choice; if the grammar is reordered this becomes an obligation", pf.span, fn=pf.path,
               key="C11.module-identity|shadowed|%s" % lit)



def names_import_shares(F, rep):
    """`import xs from m` gives the importer the module's own value: for a list, a map or an object that is the same container (a Gc pointer
    copy), so what any importer or the module itself changes in place is seen by all.  In the handler split_lookup_store the value handed to
    register_variable_local comes from the export's cell through `PrimitiveFlagsPair::primitive` and `Clone::clone` only - no container is
    built on the way (`vector!`, `to_vec`, `GcVector::new`, a `Primitive::Vector(..)` literal)."""
    h = F.fn("bytecode::instruction::implementations::split_lookup_store")
    if h is None:
        raise AnchorMissing("implementations::split_lookup_store")
    regs = h.calls_to("bytecode::context::Ctx::register_variable_local")
    rep.floor("C11.shared-instance registrations in split_lookup_store", len(regs), 1)
    thr = rules.TRANSPARENT | {"core::clone::Clone::clone", "core::ops::deref::Deref::deref"}
    for i, c in enumerate(regs):
        l = op_local(c.args[2]) if len(c.args) > 2 else None
        org = rules.origins(h, l, transparent=thr) if l is not None else set()
        calls_ = rules.origin_calls(h, l, transparent=thr) if l is not None else []
        built = sorted(str(o) for o in org if o[0] in ("agg", "const", "other"))
        foreign = sorted({mir.short(x.callee()) for x in calls_ if not x.matches(("bytecode::stack::PrimitiveFlagsPair::primitive",))})
        ok = bool(calls_) and not built and not foreign
        rep.ob("C11.shared-instance", "`import a from m` binds the module's own value (pointer copy), not a container built for the importer",
               "ok" if ok else "violated",
               "" if ok else "the registered value also comes from %s: an exported list is handed over as a private copy and later in-place changes are not shared"
               % (built + foreign), c.span, fn=h.path, key="C11.shared-instance|names-import|#%d" % i)



def exports_declared_once(F, rep):
    """At run time a module's export map takes each name once (`update_once`; a second `export x` stops the importer with `Double export`).
    That is a property of the module's text, so the compiler refuses it: in ModuleType::from_node every Export::add is reached only on the
    negative edge of a test whether the name is exported already."""
    fm = need(F, "compiler::ast::r#type::ModuleType::from_node")
    adds = fm.calls_to("compiler::ast::export::Export::add")
    tests = [c for c in fm.calls() if c.callee().startswith("compiler::ast::export::Export::") and fm.locals[c.dst["l"]] == "bool"]
    rep.floor("C11.export-once Export::add call sites", len(adds), 2)
    for i, a in enumerate(adds):
        if not tests:
            v, info = "violated", "no test of the export list before the add: `export x: int = 1` twice compiles and the importer dies with `Double export`"
        else:
            v, info = rules.guarded_by_bool(fm, [a.bb], [t.dst["l"] for t in tests], want=False)
        rep.ob("C11.export-once", "ModuleType::from_node adds an export only if the name is not exported yet", v, str(info) if v != "ok" else "", a.span, fn=fm.path,
               key="C11.export-once|#%d" % i)



def modules_are_not_left_by_return(F, rep, rule="C11.module-exit"):
    """The code that imports a module waits for the module object its top-level function yields (`ret_mod`).  A `return` statement compiles
    to `ret`: at the top level of a module (also inside its ifs and loops) it would end the module without one, and the importer stops with
    "did not yield a module".  Parser::return_statement therefore succeeds only behind the passing edge of a test that finds a function
    among the enclosing scopes (a callee that reaches Scope::is_function)."""
    rs = None
    for g in F.crates["compiler"].fns:
        if g.path.endswith("::return_statement") and "impl compiler::parser::Parser" in g.path and g.kind != "Closure":
            rs = g
    if rs is None:
        raise AnchorMissing("Parser::return_statement")
    ISF = "compiler::scope::Scope::is_function"

    def scans_for_function(g, depth=2):
        if g is None:
            return False
        bodies = [g] + F.closures_of(g)
        if any(b.calls_to(ISF) for b in bodies):
            return True
        if depth == 0:
            return False
        return any(scans_for_function(F.fn(c.callee()), depth - 1) for b in bodies for c in b.calls() if c.callee().startswith("compiler::"))
    tests = [c for c in rs.calls() if rs.locals[c.dst["l"]].strip() == "bool" and c.callee().startswith("compiler::") and scans_for_function(F.fn(c.callee()))]
    oks = rules.ok_return_blocks(rs)
    rep.floor(rule + " successful returns of return_statement", len(oks), 2)
    if not tests:
        v, info = "violated", ("no test for an enclosing function: `if true { return }` at the top level of an imported module compiles, and the importer stops with "
                               "`did not yield a module`")
    else:
        v, info = rules.guarded_by_bool(rs, oks, [c.dst["l"] for c in tests], want=True)
    rep.ob(rule, "a `return` statement is accepted only inside of a function", v, str(info) if v != "ok" else "", rs.span, fn=rs.path, key=rule)



def exports_are_registered_by_module_level_code(F, rep, rule="C11.export-once"):
    """The export map takes a name once per run of the module (`update_once`).  Code inside a function body can run any number of times, so an
    instruction that registers an export (`export_special`, `export_name`) may only be emitted for a statement at the top level of the
    module: a class declared inside of a function used to emit `export_special` and the second call of the function died with `Double
    export`.  Per emission site: in Class::compile the site lies behind the true edge of a flag of the node that Parser::class fills from
    is_at_module_level(); for `export x = ..` the parser refuses the flag anywhere else."""
    import opcodes
    sites = [(f, name, span, call) for (f, name, span, call) in opcodes.instruction_literals(F) if name in ("export_special", "export_name")]
    rep.floor(rule + " emission sites of export instructions", len(sites), 2)
    pa = F.fn("compiler::ast::assignment::<impl compiler::parser::Parser>::assignment")
    pc = F.fn("compiler::ast::class::<impl compiler::parser::Parser>::class")
    if pa is None or pc is None:
        raise AnchorMissing("Parser::assignment / Parser::class")
    for f, name, span, call in sites:
        owner = mir.short(re.sub(r"::\{closure#\d+\}", "", f.path))
        if "Assignment" in owner:
            tests = pa.calls_to("compiler::parser::AssocFileData::is_at_module_level")
            ok = bool(tests)
            why = "" if ok else "Parser::assignment never asks is_at_module_level(): an `export` inside a function body would register once per call"
        elif "Class" in owner:
            flags = []
            for bi, si, dst, rv, st in f.assigns():
                pl = mir.op_place(rv["use"]) if "use" in rv else None
                if pl and pl["l"] == 1 and f.locals[dst["l"]].strip() == "bool" and any(e[0] == "field" and "module" in str(e[2]) for e in pl.get("p") or []):
                    flags.append(dst["l"])
            v, info = rules.guarded_by_bool(f, [call.bb], flags, want=True) if flags else ("violated", "no module-level flag of the node is tested")
            fed = any(c.matches("compiler::parser::AssocFileData::is_at_module_level") for c in pc.calls())
            ok = v == "ok" and fed
            why = "" if ok else "%s; Parser::class asks is_at_module_level(): %s - `mk = fn() { class P {..} }` called twice dies with `Double export`" % (info, fed)
        elif owner.startswith("<Export as"):
            # one instruction per entry of the module's export list: the list is filled by ModuleType::from_node only, which reads the file's
            # top-level statements
            adders = sorted({mir.short(re.sub(r"::\{closure#\d+\}", "", g.path)) for g in F.crates["compiler"].fns if g.calls_to("compiler::ast::export::Export::add")})
            ok = adders == ["ModuleType::from_node"]
            why = "" if ok else "the export list is also filled by %s" % adders
        else:
            ok, why = False, "an emitter of %s this rule does not know" % name
        rep.ob(rule, "%s emits %s only for a declaration at the top level of the module" % (owner, name), "ok" if ok else "violated", why, span, fn=f.path,
               key="%s|module-level|%s|%s" % (rule, owner, name))



def names_import_supplies_what_it_binds(F, rep, rule="C11.names-import"):
    """`import X from m` binds X in the importing scope (add_dependency) and reports X as supplied by the statement (the identifiers kept in the
    Import node, which `supplies()` hands to the capture analysis).  The analysis cancels a use against a supply by name *and type*: the
    two have to be one identifier.  If the scope gets X typed as a constructor and the supply keeps the exported class type, a function that
    names-imports a class and constructs it leaks `X` onto its capture list and fails when it is made (`X is not in scope`).  Structural part:
    in Parser::import_names the identifier pushed onto the names list and the one handed to add_dependency are the same local."""
    g = F.fn("compiler::ast::import::<impl compiler::parser::Parser>::import_names")
    if g is None:
        raise AnchorMissing("Parser::import_names")
    deps = g.calls_to("compiler::parser::AssocFileData::add_dependency")
    pushes = [c for c in g.calls() if mir.strip_generics(c.callee()).endswith("Vec::push") and "ident::Ident" in " ".join(c.t["func"].get("ga") or [])]
    rep.floor(rule + " identifiers bound by import_names", len(deps), 1)
    rep.floor(rule + " identifiers kept by import_names", len(pushes), 1)

    def base(l, depth=6):
        for _ in range(depth):
            ds = [d for d in rules.defs_of(g, l) if d[0] == "assign" and not d[3].get("p")] if l is not None else []
            if len(ds) != 1:
                return l
            rv = ds[0][4]
            pl = rv.get("ref") or (mir.op_place(rv["use"]) if "use" in rv else None)
            if not pl or (pl.get("p") and pl.get("p") != [["deref"]]):      # `&*(&x)` is still x
                return l
            l = pl["l"]
        return l
    bound = {base(op_local(c.args[1])) for c in deps if len(c.args) > 1}
    kept = {base(op_local(c.args[1])) for c in pushes if len(c.args) > 1}
    ok = bool(bound) and bound == kept
    rep.ob(rule, "import_names keeps (and so supplies) the very identifier it binds in the scope", "ok" if ok else "violated",
           "" if ok else "bound: locals %s, kept: locals %s - a class imported by name inside a function is bound as its constructor but supplied as the class, so the function "
                         "tries to capture it" % (sorted(bound), sorted(kept)), (pushes[0].span if pushes else g.span), fn=g.path, key=rule + "|same-ident")


def entry_is_spelled_like_an_import(ctx, rep, rule="C11.module-identity"):
    """A module is one instance per *spelling* of its path (the compile-time registry and the run-time `<path>#__module__` key are strings).  Imports
    drop the `.` components of what they spell (C11.module-identity|feature), so the file named on the command line has to be spelled the same
    way before it becomes a key: otherwise `execute ./main.mmm` runs `main.mmm` a second time when one of its modules imports `main`.  In the
    CLI (`mscript::main` and its closures) every path handed to Program::new or to the compile entry comes out of a function that walks
    `Path::components` and tests `Component::CurDir` (or canonicalises on both sides)."""
    F = ctx.facts("default", ["mscript-bin", "bytecode", "compiler"])
    m = F.fn("mscript::main")
    if m is None:
        raise AnchorMissing("mscript::main")
    root = [f for f in F.all_fns() if f.path.startswith("mscript::")]
    normalisers = set()
    for f in root:
        if f.kind == "Closure":
            continue
        bodies = [f] + F.closures_of(f)
        comps = any(b.calls_to("std::path::Path::components") for b in bodies)
        curdir = False
        for b in bodies:
            for body in b.d.get("promoted", []) or []:
                for blk in body.get("blocks", []):
                    for s_ in blk.get("s", []):
                        rv = s_.get("rv", {})
                        if "agg" in rv and rv["agg"].get("adt", "").endswith("path::Component") and rv["agg"].get("v") == "CurDir":
                            curdir = True
            for blk in b.blocks:
                t = blk["t"]
                if t["k"] == "switch":
                    for s_ in blk["s"]:
                        if "d" in s_ and "discr" in s_["rv"] and "path::Component" in b.locals[s_["rv"]["discr"]["l"]]:
                            curdir = True
        if comps and curdir:
            normalisers.add(f.path)
    bodies = [m] + F.closures_of(m)
    thr = rules.TRANSPARENT | {rules.TRY_BRANCH, "alloc::string::String::as_str", "core::ops::deref::Deref::deref", "alloc::borrow::ToOwned::to_owned", "core::clone::Clone::clone"}

    def sources(g, l, depth=0):
        """origin calls of local l of g, following a captured variable into the function that built the closure"""
        out = list(rules.origin_calls(g, l, transparent=thr))
        for o, fs in rules.trace_paths(g, l, transparent=thr):
            if o[0] == "arg" and o[1] == 1 and g.kind == "Closure" and fs and depth < 3:
                idx = None
                for x in fs:
                    if isinstance(x, str) and x.isdigit():
                        idx = int(x)
                        break
                for parent in bodies:
                    for bi, si, dst, rv, s_ in parent.assigns():
                        if "agg" in rv and rv["agg"].get("k") == "closure" and rv["agg"].get("def") == g.path and idx is not None and idx < len(rv["ops"]):
                            pl = op_local(rv["ops"][idx])
                            if pl is not None:
                                out += sources(parent, pl, depth + 1)
        return out
    n = 0
    for g in bodies:
        for c in g.calls():
            if not c.matches(("bytecode::interpreter::Program::new", "mscript::compile")) or not c.args:
                continue
            l = op_local(c.args[0])
            src = sources(g, l) if l is not None else []
            # a path that is itself the result of another CLI step (the transpiler's output name) starts from a normalised path one step earlier
            def is_norm(x):
                return x.callee() in normalisers or (F.fn(x.callee()) is not None and F.fn(x.callee()).path in normalisers)

            def alt_ok(x, g=g):
                # each alternative the path can come from is normalised - directly, or one CLI step earlier (the transpiler's output name)
                if is_norm(x):
                    return True
                if x.matches("mscript::transpile_command"):
                    xl = op_local(x.args[0]) if x.args else None
                    ys = sources(g, xl) if xl is not None else []
                    return bool(ys) and all(is_norm(y) for y in ys)
                return False
            n += 1
            okk = bool(src) and all(alt_ok(x) for x in src)
            rep.ob(rule, "the path the command line hands to %s is spelled the way imports spell theirs (no `.` components)" % mir.short(c.callee()),
                   "ok" if okk else "violated",
                   "" if okk else ("the path reaches %s as typed (from %s): `mscript execute ./main.mmm` registers the entry as `./main.mmm`, a module's `import main` names `main.mmm`, "
                                   "and the entry's top level runs a second time" % (mir.short(c.callee()), sorted({mir.short(x.callee()) for x in src}) or "the arguments")),
                   c.span, fn=g.path, key="%s|entry|%s|%s" % (rule, mir.short(g.path).split("::")[-1], mir.short(c.callee())))
    rep.floor(rule + " entry paths handed on by the CLI", n, 3)
