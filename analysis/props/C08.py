"""C08 — objects: per-instance state, reference identity, bound methods (sharing structure only).

 1. one fresh identity per construction: Gc<DebugPrintableLock>::new only in ObjectBuilder::build / Object::new;
    make_object reaches build on every Ok path and pushes the built object
 2. the object *is* the class-body frame's cells: object_variables <- Ctx::get_frame_variables through
    VariableMapping::clone only; no fresh cell is created on the way (cells are shared with the methods' captures)
 3. field access hands out the cell; writes go through it: Object::get_property / has_variable return what
    VariableMapping::get returned; lookup wraps exactly that in HeapPrimitive::Lookup; HeapPrimitive::set's Lookup
    arm calls set_primitive on it
 4. `is` compares identities: runtime_addr_check's (Object, Object) arm compares id_addr of both operands;
    id_addr is the address behind debug_lock; Object::clone copies the identity pointer (Gc::clone)
"""
import re
import mir
import rules
from mir import op_local, op_const
from core import AnchorMissing
from props import _cells
from props._cells import need, agg_sites, origin_ok, PASS, ga0

LOCK_TY = "bytecode::variables::object::DebugPrintableLock"


def run(ctx, rep):
    F = ctx.facts("default", ["bytecode"])
    rep.explain("C08: who-may-create on object identities (type-resolved Gc::<DebugPrintableLock>::new sites), pass-through of the "
                "class-body frame's cells into the object and out of field lookups, write-through of field assignment, and the shape "
                "of the (Object, Object) arm of the identity test.")
    rep.assume("per-instance state, aliasing and identity over run-time histories are not decided; only the sharing structure they rest on")
    rep.assume("gc::Gc::clone is a pointer copy")

    # ---- 1 -----------------------------------------------------------------------
    creators = []
    for f in F.crates["bytecode"].fns:
        for c in f.calls():
            if c.matches("gc::Gc::new") and ga0(c) == LOCK_TY:
                creators.append((f, c))
    rep.floor("C08.identity creation sites", len(creators), 2)
    allowed = {"bytecode::variables::object::ObjectBuilder::build", "bytecode::variables::object::Object::new"}
    for f, c in creators:
        rep.ob("C08.fresh-identity", "identity token created in %s" % mir.short(f.path), "ok" if f.path in allowed else "violated",
               "Gc<DebugPrintableLock>::new outside the object constructors", c.span, fn=f.path)
        # not hoisted into a loop-invariant/static: the creation is in the constructor body itself and feeds the Object aggregate
        objs = agg_sites(f, "bytecode::variables::object::Object")
        fed = any(("call", c.bb) in rules.origins(f, op_local(o), transparent=set()) for bi, si, dst, rv, s in objs for o in rv["ops"] if op_local(o) is not None)
        rep.ob("C08.fresh-identity", "%s: the new token is the object's debug_lock" % mir.short(f.path), "ok" if fed else "violated", "", c.span, fn=f.path)
        # token value is fresh (Default), not shared
        origin_ok(rep, "C08.fresh-identity", "%s: token payload is DebugPrintableLock::default()" % mir.short(f.path), f, op_local(c.args[0]),
                  ["core::default::Default::default"], transparent=set(), where=c.span)
    mo = need(F, "bytecode::instruction::implementations::make_object")
    builds = mo.calls_to("bytecode::variables::object::ObjectBuilder::build")
    okret = [bi for bi, si, dst, rv, s in mo.assigns() if dst["l"] == 0 and "agg" in rv and rv["agg"].get("v") == "Ok"]
    ok = bool(builds) and bool(okret) and all(rules.call_dominates(mo, builds, b) for b in okret)
    rep.ob("C08.fresh-identity", "make_object builds a new object on every Ok path", "ok" if ok else "violated", "", mo.span, fn=mo.path)
    # the builder is one process-wide object that remembers what it was told last: the class name and the variables of *this* object are told
    # to it on every path that builds (a setter that sits only in the "class not registered yet" branch leaves the previous class's name)
    for setter, what, src in (("bytecode::variables::object::ObjectBuilder::name", "class name", "bytecode::function::Function::name"),
                              ("bytecode::variables::object::ObjectBuilder::object_variables", "fields", None)):      # their origin: the clause on object_variables above
        sets = mo.calls_to(setter)
        okd = bool(sets) and all(rules.call_dominates(mo, sets, b.bb) for b in builds)
        okv = True
        for c in sets:
            l = op_local(c.args[1]) if len(c.args) > 1 else None
            oc = rules.origin_calls(mo, l, transparent=rules.TRANSPARENT | {rules.TRY_BRANCH, "alloc::borrow::ToOwned::to_owned", "core::clone::Clone::clone",
                                                                             "alloc::string::ToString::to_string"}) if l is not None else []
            if src is not None and not any(x.matches(src) for x in oc):
                okv = False
        rep.ob("C08.class-of-object", "make_object tells the shared builder the %s of this object on every path that builds" % what,
               "ok" if (okd and okv) else "violated",
               "" if (okd and okv) else ("%d call(s) of %s; dominating every build: %s; value from %s: %s - an object built after another class was first instantiated gets that "
                                         "class's name and its method calls fail" % (len(sets), mir.short(setter), okd, mir.short(src or "-"), okv)),
               builds[0].span if builds else mo.span, fn=mo.path, key="C08.class-of-object|%s" % what.replace(" ", "-"))
    # a field takes every value the type checker let through (a `T?` field: a T, another T, nil, in any order): the store handler has no
    # opinion on the kind of the value - it fails only for want of operands or of a view to store through
    pm = need(F, "bytecode::instruction::implementations::ptr_mut")
    hs = F.fn("bytecode::variables::primitive::HeapPrimitive::set")
    KIND = ("bytecode::variables::primitive::Primitive::ty", "bytecode::variables::primitive::Primitive::is_numeric", "core::mem::discriminant",
            "core::intrinsics::discriminant_value", "bytecode::variables::primitive::Primitive::equals", "bytecode::variables::primitive::Primitive::runtime_addr_check")
    judged = [pm] + ([hs] if hs is not None else [])
    kind_calls = [(g, c) for g in judged for c in g.calls() if c.matches(KIND)]
    rep.ob("C08.field-write", "`o.f = v` stores whatever value it is handed: the handler does not compare kinds", "violated" if kind_calls else "ok",
           ("%s asks for the kind of a value (%s): a `T?` field that holds a value can no longer be cleared with nil (`mismatched types`), which the type checker accepts"
            % (mir.short(kind_calls[0][0].path), mir.short(kind_calls[0][1].callee()))) if kind_calls else "", kind_calls[0][1].span if kind_calls else pm.span, fn=pm.path,
           key="C08.field-write|no-kind-test")
    # build not in a cache branch: each execution of make_object calls build (no guard that skips it)
    pushes = mo.calls_to("bytecode::context::Ctx::push")
    for p in pushes:
        objs = [a for a in agg_sites(mo, "bytecode::variables::primitive::Primitive", "Object")]
        okp = False
        for bi, si, dst, rv, s in objs:
            oc = rules.origin_calls(mo, op_local(rv["ops"][0]), transparent=set())
            if oc and all(x in builds for x in oc):
                okp = True
        rep.ob("C08.fresh-identity", "make_object pushes the object it just built", "ok" if okp else "violated", "", p.span, fn=mo.path)

    # ---- 2 -----------------------------------------------------------------------
    ov = mo.calls_to("bytecode::variables::object::ObjectBuilder::object_variables")
    rep.floor("C08.object_variables calls", len(ov), 1)
    for c in ov:
        origin_ok(rep, "C08.object-is-frame", "make_object: object_variables <- the class-body frame's variable cells", mo, op_local(c.args[1]),
                  ["bytecode::context::Ctx::get_frame_variables"],
                  transparent=PASS | {"bytecode::stack::VariableMapping::clone"}, where=c.span)
    new_callers = {f.path for f, c in F.callers_of("bytecode::stack::PrimitiveFlagsPair::new")}
    reach = F.reach([mo.path])
    local_reach = {g.path for g in F.all_fns() if g.path in reach}
    rewrap = sorted((new_callers & local_reach) - {"bytecode::stack::Stack::register_variable_local"})
    # (register_variable_local is reachable only through unrelated helpers; the direct test is on make_object and the builder)
    direct = [p for p in (mo.path, "bytecode::variables::object::ObjectBuilder::build", "bytecode::variables::object::ObjectBuilder::object_variables",
                          "bytecode::stack::VariableMapping::clone") if p in new_callers]
    rep.ob("C08.object-is-frame", "no fresh cell is created while an object is assembled", "ok" if not direct else "violated",
           "PrimitiveFlagsPair::new called from %s" % direct, mo.span, fn=mo.path)
    vmc = need(F, "bytecode::stack::VariableMapping::clone")
    cl = [c for c in vmc.calls() if c.matches("core::clone::Clone::clone")]
    ok = len(cl) == 1 and "HashMap" in (cl[0].res or "") and len(vmc.calls()) == 1
    rep.ob("C08.object-is-frame", "VariableMapping::clone clones the map (cells shared through PrimitiveFlagsPair::clone)", "ok" if ok else "violated",
           "calls %s" % [c.res for c in vmc.calls()], vmc.span, fn=vmc.path)
    _cells.clone_is_pointer_copy(rep, "C08.object-is-frame", F)
    gfv = need(F, "bytecode::stack::Stack::get_frame_variables")
    tp = set()
    for l in _cells.returned_payloads(gfv):
        tp |= rules.trace_paths(gfv, l, transparent=PASS | {"core::slice::<impl [T]>::last", "alloc::vec::Vec::last"})
    rep.ob("C08.object-is-frame", "Stack::get_frame_variables returns the top frame's `variables`",
           "ok" if any(fs and fs[-1] == "variables" for _, fs in tp) and all(o[0] in ("arg", "call") for o, _ in tp) else "violated",
           "returns %s" % sorted(str(x) for x in tp), gfv.span, fn=gfv.path)
    b = need(F, "bytecode::variables::object::ObjectBuilder::build")
    objs = agg_sites(b, "bytecode::variables::object::Object")
    oa = F.adt("bytecode::variables::object::Object")
    oi = [i for i, f in enumerate(oa["variants"][0]["fields"]) if f["name"] == "object_variables"][0]
    for bi, si, dst, rv, s in objs:
        tp = rules.trace_paths(b, op_local(rv["ops"][oi]), transparent=PASS)
        ok = tp == {(("arg", 1), ("object_variables",))}
        rep.ob("C08.object-is-frame", "ObjectBuilder::build: the object's fields are the variables given to the builder", "ok" if ok else "violated",
               "derives from %s" % sorted(str(x) for x in tp), s.get("sp"), fn=b.path)

    # ---- 3 -----------------------------------------------------------------------
    hv = need(F, "bytecode::variables::object::Object::has_variable")
    origin_ok(rep, "C08.field-is-cell", "Object::has_variable returns the cell stored in object_variables", hv, 0,
              ["bytecode::stack::VariableMapping::get"])
    for c in hv.calls_to("bytecode::stack::VariableMapping::get"):
        tp = rules.trace_paths(hv, op_local(c.args[0]), transparent=PASS)
        rep.ob("C08.field-is-cell", "Object::has_variable looks in self.object_variables", "ok" if tp == {(("arg", 1), ("object_variables",))} else "violated",
               "receiver %s" % sorted(str(x) for x in tp), c.span, fn=hv.path)
    gp = need(F, "bytecode::variables::object::Object::get_property")
    origin_ok(rep, "C08.field-is-cell", "Object::get_property returns has_variable / has_function results unchanged", gp, 0,
              ["bytecode::variables::object::Object::has_variable", "bytecode::variables::object::Object::has_function"])
    lk = need(F, "bytecode::instruction::implementations::lookup")
    nl = lk.calls_to("bytecode::variables::primitive::HeapPrimitive::new_lookup_view")
    rep.floor("C08.lookup new_lookup_view sites", len(nl), 1)
    for c in nl:
        origin_ok(rep, "C08.field-is-cell", "lookup: the pointer pushed wraps exactly the cell Primitive::lookup returned", lk, op_local(c.args[0]),
                  ["bytecode::variables::primitive::Primitive::lookup"], where=c.span)
    nlv = need(F, "bytecode::variables::primitive::HeapPrimitive::new_lookup_view")
    look = agg_sites(nlv, "bytecode::variables::primitive::HeapPrimitive", "Lookup")
    ok = len(look) == 1 and rules.trace_paths(nlv, op_local(look[0][3]["ops"][0]), transparent=set()) == {(("arg", 1), ())} and not nlv.calls()
    rep.ob("C08.field-is-cell", "HeapPrimitive::new_lookup_view stores the given cell", "ok" if ok else "violated", "", nlv.span, fn=nlv.path)
    pl = need(F, "bytecode::variables::primitive::Primitive::lookup")
    gps = pl.calls_to("bytecode::variables::object::Object::get_property")
    rep.ob("C08.field-is-cell", "Primitive::lookup delegates object fields to Object::get_property", "ok" if gps else "violated", "", pl.span, fn=pl.path)
    hs = need(F, "bytecode::variables::primitive::HeapPrimitive::set")
    t0 = None
    for bi, blk in enumerate(hs.blocks):
        if blk["t"]["k"] == "switch":
            t0 = bi
            break
    li = [i for i, v in enumerate(F.adt("bytecode::variables::primitive::HeapPrimitive")["variants"]) if v["name"] == "Lookup"][0]
    ok = False
    detail = "no match on self"
    if t0 is not None:
        tgt = _cells.variant_edge(hs, t0, li)
        others = {x for x in hs.succs(t0) if x != tgt}
        reg = hs.reachable(tgt, removed_blocks=others)
        sps = [c for c in hs.calls_to("bytecode::stack::PrimitiveFlagsPair::set_primitive") if c.bb in reg]
        okret = [bi for bi, si, dst, rv, s in hs.assigns() if dst["l"] == 0 and "agg" in rv and rv["agg"].get("v") == "Ok"]
        through = bool(sps) and all(b not in hs.reachable(tgt, removed_blocks={c.bb for c in sps}) for b in okret)
        val = all(rules.trace_paths(hs, op_local(c.args[1]), transparent=set()) == {(("arg", 2), ())} for c in sps)
        cell = all(any("@Lookup" in fs for _, fs in rules.trace_paths(hs, op_local(c.args[0]), transparent=PASS)) for c in sps)
        ok = through and val and cell
        detail = "set_primitive on the Lookup cell on every path=%s value=arg:%s cell=self.Lookup.0:%s" % (through, val, cell)
    rep.ob("C08.field-is-cell", "HeapPrimitive::set (Lookup): a field assignment writes the new value into the shared cell", "ok" if ok else "violated",
           detail, hs.span, fn=hs.path)

    # ---- 1b. one identity per instance: the class body snapshots the frame once -------------------------------------
    # make_object mints a fresh identity token each time it runs; the instance handed to the constructor as `self` and the one returned
    # to the caller must be the *same* object value, i.e. one make_object whose result is kept in a register and loaded twice.
    try:
        Fc = ctx.facts("default", ["compiler"])
        import opcodes
        lits = [(f, nm, sp, c) for f, nm, sp, c in opcodes.instruction_literals(Fc)]
        emit = [(f, c) for f, nm, sp, c in lits if nm == "make_object"]
        rep.floor("C08.make_object emission sites in the compiler", len(emit), 1)
        per_fn = {}
        for f, c in emit:
            per_fn.setdefault(f.path, []).append(c)
        for path, cs in sorted(per_fn.items()):
            f = Fc.fn(path)
            loads = [c for f2, nm, sp, c in lits if f2 is f and nm == "load_fast"]
            stores = [c for f2, nm, sp, c in lits if f2 is f and nm == "store_fast"]
            ok1 = len(cs) == 1
            rep.ob("C08.identity-source", "%s emits make_object exactly once per instance (self and the returned object are one value)" % mir.short(path),
                   "ok" if ok1 and len(loads) >= 2 and len(stores) >= 1 else "violated",
                   "make_object emitted %d times; load_fast %d, store_fast %d: each make_object run creates a distinct identity, so `self` captured in the "
                   "constructor would not be `is`-equal to the object the call returns" % (len(cs), len(loads), len(stores)), cs[0].span, fn=path,
                   key="C08.identity-source|%s|one-make_object" % mir.short(path))
    except KeyError:
        pass

    # ---- 4 -----------------------------------------------------------------------
    rc = need(F, "bytecode::variables::primitive::Primitive::runtime_addr_check")
    ids = rc.calls_to("bytecode::variables::object::Object::id_addr")
    ok = False
    detail = "expected two id_addr calls, found %d" % len(ids)
    if len(ids) == 2:
        srcs = []
        for c in ids:
            tp = rules.trace_paths(rc, op_local(c.args[0]), transparent=PASS)
            srcs.append({(o, fs) for o, fs in tp})
        a = {o for s in srcs for (o, fs) in s}
        both = any(o == ("arg", 1) for o, _ in srcs[0] | srcs[1]) and any(o == ("arg", 2) for o, _ in srcs[0] | srcs[1])
        objarm = all(any("@Object" in fs for _, fs in s) for s in srcs)
        # compared with Eq and the result returned as Bool
        eqs = [(bi, si, dst, rv) for bi, si, dst, rv, s in rc.assigns() if "bin" in rv and rv["bin"] == "Eq" and
               {op_local(rv["l"]), op_local(rv["r"])} == {c.dst["l"] for c in ids}]
        bools = []
        for bi, si, dst, rv in eqs:
            for b2, s2, d2, rv2, s in agg_sites(rc, "bytecode::variables::primitive::Primitive", "Bool"):
                if op_local(rv2["ops"][0]) == dst["l"]:
                    bools.append(b2)
        ok = both and objarm and len(eqs) == 1 and bool(bools)
        detail = "operands: self and rhs=%s, both from the Object payload=%s, compared with ==: %d, wrapped in Bool: %s" % (both, objarm, len(eqs), bool(bools))
    rep.ob("C08.identity-test", "`is` on two objects compares Object::id_addr(self) == Object::id_addr(rhs)", "ok" if ok else "violated", detail, rc.span, fn=rc.path)
    ia = need(F, "bytecode::variables::object::Object::id_addr")
    tp = rules.trace_paths(ia, 0, transparent=PASS | {"core::convert::AsRef::as_ref"})
    rep.ob("C08.identity-test", "Object::id_addr is the address behind debug_lock", "ok" if tp == {(("arg", 1), ("debug_lock",))} else "violated",
           "derives from %s" % sorted(str(x) for x in tp), ia.span, fn=ia.path)
    oc = [f for f in F.find("core::clone::Clone::clone") if f.d.get("impl_self") == "bytecode::variables::object::Object"]
    if len(oc) != 1:
        raise AnchorMissing("impl Clone for Object")
    oc = oc[0]
    objs = agg_sites(oc, "bytecode::variables::object::Object")
    di = [i for i, f in enumerate(oa["variants"][0]["fields"]) if f["name"] == "debug_lock"][0]
    ok = False
    for bi, si, dst, rv, s in objs:
        cs = rules.origin_calls(oc, op_local(rv["ops"][di]), transparent=set())
        ok = len(cs) == 1 and (cs[0].res or "").startswith("<gc::Gc<T> as core::clone::Clone>")
    rep.ob("C08.identity-test", "copying an object reference copies the identity pointer (Gc::clone), not the token", "ok" if ok else "violated",
           "", oc.span, fn=oc.path)
    no_view_stored(F, rep, ctx)
    code_labels(ctx, rep)
    receiver_is_bound(ctx, rep)
    self_constructor_finds_its_class(ctx, rep)
    # `a.f op= v` reads and writes the field of *one* object: the target path (which may call a method or a constructor) is laid down once
    from props import C15 as _c15
    from core import Report as _Report
    tmp = _Report("C15", rep.tier)
    _c15.run(ctx, tmp)
    k_ = 0
    for o in tmp.obligations:
        if o["rule"] == "C15.once" and "|opassign|" in o["key"]:
            k_ += 1
            rep.ob("C08.target-once", o["instance"], o["status"], o["detail"], o["where"], key=o["key"].replace("C15.once", "C08.target-once", 1), fn=o.get("fn"))
    rep.floor("C08.target-once compound-assignment shapes", k_, 2)
    # reading a field does not change it: the only handlers that write through a field / element view are the two assignment instructions
    # (`a.f = v`: ptr_mut -> HeapPrimitive::set; `a.f op= v`: bin_op_assign -> HeapPrimitive::update).  A reading instruction that "avoids a clone" by
    # going through update (`neg` on a view: `-self.balance`) writes its result back into the object.
    WRITERS = {"ptr_mut": ("set",), "bin_op_assign": ("update",)}
    nw = 0
    for g in F.crates["bytecode"].fns:
        for c in g.calls():
            n_ = mir.short(c.callee())
            if not (n_.startswith("HeapPrimitive::") and n_.split("::")[-1] in ("update", "set")):
                continue
            nw += 1
            owner = g.path.split("::{")[0].split("::")[-1]
            okw = g.path.startswith("bytecode::instruction::implementations::") and n_.split("::")[-1] in WRITERS.get(owner, ())
            # (a helper outside the instruction handlers is not judged here: who calls it decides)
            st_w = "ok" if okw else ("violated" if g.path.startswith("bytecode::instruction::implementations::") else "undecided")
            rep.ob("C08.view-writers", "%s writes through a field / element view with %s" % (mir.short(g.path), n_), st_w,
                   "" if okw else "only the assignment instructions write through a view: `-obj.f` (or whatever this handler evaluates) stores its result into the field it read, "
                   "visible through every alias of the object", c.span, fn=g.path, key="C08.view-writers|%s|%s" % (mir.short(g.path), n_))
    rep.floor("C08.view-writers write-through sites", nw, 2)
    # `x.m(args)` keeps the receiver in a register while the arguments are compiled; `ld_self` reads it back.  The method runs on x only if nothing else
    # is given that register meanwhile: every register the generators write was reserved from the counter (C07's walk of the store_fast emissions)
    from props import C07 as _c07
    tmp7 = _Report("C07", rep.tier)
    _c07.fresh_cell_for_new_names_only(F_all(ctx), tmp7)
    _c07.written_registers_are_reserved(F_all(ctx), rep, rule="C08.receiver-register")
    methods_made_before_fields(ctx, rep)
    # bin_op dispatches `is` to runtime_addr_check
    bo = need(F, "bytecode::instruction::implementations::bin_op")
    rep.ob("C08.identity-test", "bin_op dispatches to runtime_addr_check", "ok" if bo.calls_to("bytecode::variables::primitive::Primitive::runtime_addr_check") else "violated",
           "", bo.span, fn=bo.path)


def no_view_stored(F, rep, ctx, rule="C08.no-view-stored"):
    """A field / element *view* (Primitive::HeapPrimitive) denotes a storage cell, not a value.  Whatever an instruction handler
    stores into a variable cell must have been copied out of such a view first (move_out_of_heap_primitive), or a binding made
    from `obj.field` keeps following the field after it is re-assigned (identity and aliasing break)."""
    import opcodes
    STORES = {
        "bytecode::context::Ctx::register_variable": 2, "bytecode::context::Ctx::register_variable_local": 2,
        "bytecode::context::Ctx::update_callback_variable": 2, "bytecode::stack::PrimitiveFlagsPair::new": 0,
        "bytecode::stack::PrimitiveFlagsPair::set_primitive": 1, "bytecode::variables::primitive::HeapPrimitive::set": 1,
        "bytecode::context::Ctx::ref_variable": None,
        # ... and whatever is put into a list: an element that is a view of another container's slot keeps following that slot
        "alloc::vec::Vec::push": 1, "alloc::vec::Vec::insert": 2,
    }
    SAFE = ("bytecode::variables::primitive::Primitive::move_out_of_heap_primitive", "bytecode::stack::PrimitiveFlagsPair::primitive",
            "core::ops::arith::Add::add", "core::ops::arith::Sub::sub", "core::ops::arith::Mul::mul", "core::ops::arith::Div::div",
            "core::ops::arith::Rem::rem", "bytecode::variables::primitive::HeapPrimitive::to_owned_primitive",
            # the other operator traits of Primitive compute their result like the five above (a compound form of them, `<<=`, stores it)
            "core::ops::bit::Shl::shl", "core::ops::bit::Shr::shr", "core::ops::bit::BitAnd::bitand", "core::ops::bit::BitOr::bitor",
            "core::ops::bit::BitXor::bitxor", "core::ops::arith::Neg::neg", "core::ops::bit::Not::not")
    T = rules.TRANSPARENT | {rules.TRY_BRANCH, "core::option::Option::unwrap", "core::option::Option::expect", "anyhow::Context::context",
                            "anyhow::Context::with_context"}
    emitted = {name for f, name, span, c in opcodes.instruction_literals(ctx.facts("default", ["bytecode", "compiler"]))}
    n = 0
    for f in F.crates["bytecode"].fns:
        if not f.path.startswith("bytecode::instruction::implementations::"):
            continue
        handler = f.path.split("::")[-1].split("{")[0]
        for c in f.calls():
            for pat, idx in STORES.items():
                if idx is None or not c.matches(pat):
                    continue
                if pat.startswith("alloc::vec::Vec::") and "bytecode::variables::primitive::Primitive" not in " ".join(c.t["func"].get("ga") or [])[:160]:
                    continue            # only lists of program values
                n += 1
                l = op_local(c.args[idx])
                by = {x.bb: x for x in f.calls()}
                oc = rules.origins(f, l, transparent=T) if l is not None else set()
                srcs = [by[o[1]] for o in oc if o[0] == "call"]
                others = [o for o in oc if o[0] not in ("call", "const")]
                unsafe = [x for x in srcs if not x.matches(SAFE)]
                key = rule + "|%s|%s" % (mir.short(f.path), mir.short(pat))
                inst = "%s stores a value that was copied out of any field/element view" % mir.short(f.path)
                if not unsafe and not others:
                    rep.ob(rule, inst, "ok", "", c.span, fn=f.path, key=key)
                    continue
                base = f.path.split("::{")[0].split("::")[-1]
                if base not in emitted:
                    rep.ob(rule, inst, "exempt", "the compiler never emits `%s` (checked against the instruction! literals on this run)" % base,
                           c.span, fn=f.path, key=key)
                    continue
                if base == "ptr_mut":
                    # emission protocol: Reassignment::compile loads the value from a temporary written by `store` (which copies out)
                    rc = [g for g in F_all(ctx).find("compiler::ast::Compile::compile") if "reassignment::Reassignment as " in g.path]
                    lits = []
                    if rc:
                        lits = [nm for ff, nm, sp, cc in opcodes.instruction_literals(F_all(ctx)) if ff is rc[0]]
                    ok = lits[:1] == ["store"] and "load_fast" in lits and lits.index("load_fast") < lits.index("ptr_mut") if "ptr_mut" in lits else False
                    only = [ff.path for ff, nm, sp, cc in opcodes.instruction_literals(F_all(ctx)) if nm == "ptr_mut"]
                    ok = ok and len(only) == 1
                    rep.ob(rule, inst, "ok" if ok else "violated",
                           "ptr_mut takes the value as popped; the only emitter (Reassignment::compile) must load it from a temporary written by `store`: %s" % lits,
                           c.span, fn=f.path, key=key)
                    continue
                rep.ob(rule, inst, "violated",
                       "the stored value can come straight from %s without move_out_of_heap_primitive: a view of a field/element cell would be bound "
                       "to the variable" % sorted({mir.short(x.callee()) for x in unsafe} | {str(o) for o in others}), c.span, fn=f.path, key=key)
    rep.floor(rule + " store sites in handlers", n, 8)


_FALL = {}


def F_all(ctx):
    if "f" not in _FALL:
        _FALL["f"] = ctx.facts("default", ["bytecode", "compiler"])
    return _FALL["f"]



def code_labels(ctx, rep):
    """A method call runs the code filed under the label of the object's class (`<file>#K::v`).  Labels of one file must be pairwise distinct,
    or one class's objects run another class's methods.  A label is either generated from the file's counter (`poll_function_id`: distinct by
    construction), a fixed literal used once (`__module__`), or spelled from a name the program chose - then the parser has to refuse a second
    declaration of that name *anywhere in the file*.  A refusal that looks the name up in the scope stack (which forgets a scope when it
    closes) does not do that."""
    F = ctx.facts("default", ["compiler"])
    n = 0
    cls = F.fn("compiler::ast::class::<impl compiler::parser::Parser>::class")
    if cls is None:
        cands = [f for f in F.crates["compiler"].fns if f.path.endswith("::class") and "impl compiler::parser::Parser" in f.path]
        if len(cands) != 1:
            raise AnchorMissing("Parser::class")
        cls = cands[0]
    for f in F.crates["compiler"].fns:
        if f.path.endswith("as core::clone::Clone>::clone"):
            continue
        for bi, si, dst, rv, s_ in f.assigns():
            if not ("agg" in rv and rv["agg"].get("adt", "").endswith("CompiledFunctionId")):
                continue
            n += 1
            v = rv["agg"].get("v")
            l = op_local(rv["ops"][0]) if rv["ops"] else None
            label = "%s builds a %s code label" % (mir.short(f.path), v)
            # keyed by the type that owns the generator, not by the method it happens to sit in
            owner = re.match(r"<?([A-Za-z_]\w*)", mir.short(f.path))
            key = "C08.code-label|%s|%s" % (owner.group(1) if owner else mir.short(f.path), v)
            if v == "Generated":
                rep.ob("C08.code-label", label + " from the file's counter", "ok", "", s_.get("sp"), fn=f.path, key=key)
                continue
            org = rules.origins(f, l) if l is not None else set()
            if org and all(o[0] == "const" for o in org):
                rep.ob("C08.code-label", label + " from a fixed literal", "ok", str(sorted(o[1] for o in org)), s_.get("sp"), fn=f.path, key=key)
                continue
            # spelled from program-chosen names (the class name, possibly with a member name appended)
            guard = None
            scope_bound = []
            for c in cls.calls():
                g = F.fn(c.callee())
                if g is None or not c.callee().startswith("compiler::parser::AssocFileData::"):
                    continue
                # a lookup of the class name whose answer is tested before the class is accepted
                if not any(k in c.callee() for k in ("get_ident_from_name", "has_name_been", "get_dependency_flags", "get_type_from_str")):
                    continue
                guard = c
                reads_scopes = any(any(e[0] == "field" and e[2] == "scopes" for e in (pl or {}).get("p", []))
                                   for bi2, si2, d2, rv2, s2 in g.assigns()
                                   for pl in [rv2.get("ref") or (mir.op_place(rv2["use"]) if "use" in rv2 else None)])
                if reads_scopes:
                    scope_bound.append(mir.short(c.callee()))
            if guard is None:
                st, why = "violated", "Parser::class never looks the class name up before accepting it"
            elif scope_bound:
                st, why = "violated", ("the label is spelled from the class name, and Parser::class refuses a duplicate only through %s, which reads the scope "
                                       "stack: two classes of one name in different function bodies of a file get the same labels, the later replaces the "
                                       "earlier and objects of the first run the second's methods" % sorted(set(scope_bound)))
            else:
                st, why = "ok", "duplicate class names are refused file-wide"
            rep.ob("C08.code-label", label + " from a name that is unique in the file", st, why, s_.get("sp"), fn=f.path, key=key)
    rep.floor("C08.code-label label constructions", n, 4)



def receiver_is_bound(ctx, rep):
    """`recv.m(args)` runs m with `self` bound to the object the method was looked up on.  The generator of a method-call link parks the
    receiver in a register it has just polled and gives that register's name to the call (`Callable::new(.., Some(register))`), which loads
    `self` from it.  A polled register holds nothing of this expression until the generator stores into it, so on every path on which a
    register is named as the receiver the emitted word contains `store_fast <that register>` before the call's code.  The generator is
    evaluated for every combination of its boolean fields; registers are distinct opaque names."""
    import itertools
    import jumps
    import seqgen
    import absint
    from absint import Variant, Opaque, TRUE, FALSE, Interp
    F = ctx.facts("default", ["compiler", "bytecode"])
    DLO = "compiler::ast::dot_lookup::DotLookupOption"
    a = F.adt(DLO)
    f = F.fn("<compiler::ast::dot_lookup::DotLookupOption as compiler::ast::Compile>::compile")
    if a is None or f is None:
        raise AnchorMissing("DotLookupOption / its Compile impl")
    names = [v["name"] for v in a["variants"]]
    fc = [v for v in a["variants"] if v["name"] == "FunctionCall"]
    if not fc:
        raise AnchorMissing("DotLookupOption::FunctionCall")
    fc = fc[0]

    def cnew(it, p, fid, fn, t, args):
        p.events.append(("callable", tuple(args)))
        return Opaque("callable")
    ms = dict(absint.DEFAULT_MODELS)
    ms.update(seqgen.MODELS)
    ms.update(jumps.MODELS)
    ms["compiler::ast::callable::Callable::new"] = cnew
    bools = [fl["name"] for fl in fc["fields"] if fl["ty"] == "bool"]
    n, named = 0, 0
    bad, und = [], []
    for combo in itertools.product((TRUE, FALSE), repeat=len(bools)):
        m = dict(zip(bools, combo))
        fields = [m[fl["name"]] if fl["ty"] == "bool" else Opaque(fl["name"]) for fl in fc["fields"]]
        it = Interp(F, models=ms, max_depth=5, max_paths=512, loop_bound=16)
        it.jcfg = {"expand": "body", "x": None}
        it.jreg = []
        outs = it.run(f, [Variant(DLO, names.index("FunctionCall"), "FunctionCall", fields), Opaque("state")])
        label = ", ".join("%s=%s" % (k, "true" if v is TRUE else "false") for k, v in m.items())
        for o in outs:
            if o.kind != "return" or not (isinstance(o.value, Variant) and o.value.name == "Ok"):
                continue
            n += 1
            ev = [e for e in o.events if e[0] == "callable"]
            seq = o.value.fields[0]
            if not ev or not isinstance(seq, seqgen.Seq):
                und.append("%s: no call / no word read" % label)
                continue
            recv = ev[0][1][2] if len(ev[0][1]) > 2 else None
            if isinstance(recv, Variant) and recv.name == "None":
                continue
            if not (isinstance(recv, Variant) and recv.name == "Some" and recv.fields and isinstance(recv.fields[0], Opaque)):
                und.append("%s: receiver argument %r" % (label, recv))
                continue
            named += 1
            reg = recv.fields[0].tag
            stored = [x for x in seq.items if x[0] == "ins" and x[1] == "store_fast" and len(x) > 3 and x[3] and isinstance(x[3][0], Opaque) and x[3][0].tag == reg]
            if not stored:
                bad.append("%s: the call is told to load `self` from %s, which this link never stores into (emitted: %s): `self` is whatever an "
                           "earlier expression left there, e.g. the previous link's receiver in `a.spawn().m()`" % (label, reg, " ".join(jumps.show_item(x) for x in seq.items)))
        if it.exhausted:
            und.append("%s: path bound" % label)
    rep.floor("C08.receiver-bound evaluated paths of the method-call generator", n, 2)
    rep.floor("C08.receiver-bound paths that name a receiver register", named, 1)
    rep.ob("C08.receiver-bound", "a method-call link stores the receiver into the register it tells the call to load `self` from",
           "violated" if bad else ("undecided" if und else "ok"), "; ".join((bad or und)[:2]), f.span, fn=f.path, key="C08.receiver-bound")



def methods_made_before_fields(ctx, rep):
    """The functions of a class - its methods and its constructor - are made (make_function) inside the class-body frame, and make_function
    captures each free name of the function by looking it up *then*, own frame first.  The fields are variables of that same frame.  A method
    that reads a module-level `n` therefore captures the field `n` instead if the field already exists when the method is made (and reads
    nil, or a value of another type, under a static type that says module-level `n`).  So in the code ClassBody::compile emits, everything
    that makes a function comes before everything that declares a field: in its MIR no method-compile call and no constructor-compile call is
    reachable from a field-compile call, and the constructor's function is appended before the fields."""
    F = ctx.facts("default", ["compiler", "bytecode"])
    f = F.fn("<compiler::ast::class::class_body::ClassBody as compiler::ast::Compile>::compile")
    cf = F.adt("compiler::ast::class::class_feature::ClassFeature")
    if f is None or cf is None:
        raise AnchorMissing("<ClassBody as Compile>::compile / ClassFeature")
    names = [v["name"] for v in cf["variants"]]
    if "Function" not in names or "Variable" not in names:
        raise AnchorMissing("ClassFeature::{Function, Variable}")
    fi, vi = str(names.index("Function")), str(names.index("Variable"))
    feat_calls = [c for c in f.calls() if "ClassFeature" in c.callee() and c.callee().endswith("::compile")]
    ctor_calls = [c for c in f.calls() if "Constructor" in c.callee() and ("compile" in c.callee().split("::")[-1])]
    if not feat_calls or not ctor_calls:
        rep.ob("C08.method-captures", "ClassBody::compile compiles its features and its constructor", "undecided", "calls not found", f.span, fn=f.path,
               key="C08.method-captures")
        return
    # edges of switches on a ClassFeature discriminant
    fn_edges, var_edges, other_edges = set(), set(), set()
    for bb, blk in enumerate(f.blocks):
        t = blk["t"]
        if t["k"] != "switch":
            continue
        dl = op_local(t["discr"])
        base = None
        for s_ in blk["s"]:
            if "d" in s_ and s_["d"]["l"] == dl and "discr" in s_["rv"]:
                base = s_["rv"]["discr"]["l"]
        if base is None or not f.locals[base].lstrip("&").replace("mut ", "").strip().startswith("compiler::ast::class::class_feature::ClassFeature"):
            continue
        tg = dict((str(v), b) for v, b in t["targets"])
        # `if let Function(..) = x`: targets [[0, then]] otherwise else
        for v, b in tg.items():
            (fn_edges if v == fi else var_edges if v == vi else other_edges).add((bb, b))
        oth = t["otherwise"]
        if len(tg) == 1:
            # the otherwise edge is `the other variant`: it leads away from the call in an `if let`
            pass

    def only_via(call, edges):
        """the call is unreachable once the given edges are removed"""
        return bool(edges) and call.bb not in f.reachable(0, removed_edges=edges)
    M = [c for c in feat_calls if only_via(c, fn_edges)]
    V = [c for c in feat_calls if only_via(c, var_edges)]
    B = [c for c in feat_calls if c not in M and c not in V]
    problems = []
    if B:
        problems.append("features are compiled in declaration order (one loop for methods and fields alike): a method declared after a field `n` captures that field "
                        "for every free `n`")
    for v in V + B:
        after = f.reachable(v.target) if v.target is not None else set()
        if any(m.bb in after for m in M + B if m is not v or True) and (M or B) and any(m.bb in after for m in M):
            problems.append("a method is made after a field was declared")
        if any(k.bb in after for k in ctor_calls):
            problems.append("the constructor is compiled after a field was declared: its function captures fields instead of outer variables of the same name "
                            "(`constructor(self) { self.n = n + 1 }` reads the nil field)")
    # the constructor's function must be appended before the first field: with a single `compile` (one block of code) that is impossible
    two_step = [k for k in ctor_calls if "two_steps" in k.callee() or "split" in k.callee()]
    if not two_step and V:
        problems.append("the constructor's code is one block placed after the fields, so its make_function runs when the fields exist")
    rep.ob("C08.method-captures", "in a class body every function (methods, constructor) is made before any field is declared",
           "violated" if problems else "ok", "; ".join(sorted(set(problems))[:3]) if problems else "%d method site(s), %d field site(s)" % (len(M), len(V)),
           feat_calls[0].span, fn=f.path, key="C08.method-captures")


def self_constructor_finds_its_class(ctx, rep, rule="C08.self-constructor"):
    """`Self(..)` inside a class calls the constructor of that class.  The expression generator turns it into `load_self_export <class name>`, which
    reads the *exports* of the running module; the class generator enters a class into the exports only when it is declared at module level
    (`export_special`) and binds the class of a function body as a local of the call (`store_fast`).  Wherever a class can be bound without being
    exported, the constructor reference needs another way to reach it (or the parser has to refuse `Self(..)` there): otherwise each such
    constructor call fails at run time (`has not been exported from the executing module`)."""
    import opcodes
    F = ctx.facts("default", ["compiler", "bytecode"])
    lits = opcodes.instruction_literals(F)
    cls = [f for f in F.crates["compiler"].fns if f.path == "<compiler::ast::class::Class as compiler::ast::Compile>::compile"]
    cd = F.fn("compiler::ast::math_expr::compile_depth")
    if len(cls) != 1 or cd is None:
        raise AnchorMissing("impl Compile for Class / compile_depth")
    binds = sorted({nm for f_, nm, sp, c in lits if f_ is cls[0] and nm in ("export_special", "store_fast", "store", "export_name")})
    refs = sorted({nm for f_, nm, sp, c in lits if f_ is cd and nm in ("load_self_export",)})
    rep.floor(rule + " ways a class is bound", len(binds), 1)
    local_binding = [b for b in binds if b in ("store_fast", "store")]
    # the generator of the constructor reference: the arm of compile_depth that emits load_self_export; does it have an alternative?
    alt = False
    for f_, nm, sp, c in lits:
        if f_ is cd and nm == "load_self_export":
            doms = set(b for b in range(len(cd.blocks)) if cd.dominates(b, c.bb))
            # a sibling emission under the same variant test (same immediate switch) of a plain load
            for f2, nm2, sp2, c2 in lits:
                if f2 is cd and nm2 in ("load", "load_fast", "load_callback") and c2 is not c:
                    common = [b for b in doms if cd.dominates(b, c2.bb) and cd.blocks[b]["t"]["k"] == "switch"]
                    inner = [b for b in common if all(cd.dominates(x, b) or x == b for x in common)]
                    if inner and any("ReferenceToConstructor" in str(s_) for s_ in cd.blocks[inner[0]]["s"]):
                        alt = True
    bad = bool(local_binding) and bool(refs) and not alt
    rep.ob(rule, "`Self(..)` reaches the class wherever the class can be bound (module exports for a module-level class, a variable for a class of a function body)",
           "violated" if bad else "ok",
           ("the class generator binds a class with %s, the constructor reference is always `load_self_export`: in a class declared inside a function, `Self(..)` fails at run "
            "time (not exported from the executing module)" % local_binding) if bad else "bindings: %s; reference: %s" % (binds, refs), cd.span, fn=cd.path,
           key=rule + "|local-class")
