"""C04 — `run` == `compile` + `execute`: the binary bytecode codec is lossless.

The two paths differ only in that the file path sends every instruction through
writer W1 = CompiledItem::repr(false) and reader R = split_string_v2(_, true).
Decided clauses:
 1. for every character class the reader distinguishes (and the empty string, and every pair),
    R(W1(arg)) == arg -- by composing W1's symbolic per-argument output with R's transition table;
 2. framing: every opcode id is written as one byte (< 128), differs from the record markers
    (NUL terminator, 'e' end marker) for every emitted instruction;
 3. the in-memory path hands (id, arguments) over verbatim;
 4. the loader tokenises with split_string == split_string_v2(_, true).
"""
import codec
import mir
import opcodes
import rules
from mir import op_local, op_const
from core import AnchorMissing
from props import _codecs
from props._codecs import need


def entry_key(F, rep):
    """`execute f.mmm` finds the functions of the entry file under the labels the compiler wrote into it (`<path>#<name>`, path as given at compile
    time, `\\` normalised to `/`).  Program::new therefore registers the entry file under the path it was given, separator-normalised and nothing
    else: a key that went through a resolving call (canonicalize, absolute, ..) no longer equals the path part of the labels, the first call into
    the entry file loads a second copy of it, and whatever the first copy had registered (its exports) is missing there."""
    import rules
    from mir import op_local, op_const
    pn = F.fn("bytecode::interpreter::Program::new")
    if pn is None:
        raise AnchorMissing("bytecode::interpreter::Program::new")
    ALLOWED = rules.TRANSPARENT | {"alloc::rc::Rc::new", "alloc::str::<impl str>::replace", "alloc::string::String::from", "alloc::string::ToString::to_string"}
    # a helper of the crate that only normalises the separator counts as that normalisation: what it returns comes from its parameter alone, through
    # the same allowed calls, and a replace in it is `\\` -> `/` (on this platform the helper is the identity: the Windows rewrite is cfg-gated out)
    for c in pn.calls():
        h = F.fn(c.callee())
        if h is None or not h.path.startswith("bytecode::") or len(h.d.get("inputs") or []) != 1:
            continue
        o = rules.origins(h, 0, transparent=ALLOWED)
        reps_ok = all((op_const(r.args[1]) or {}).get("int") == "92" and {x[1] for x in rules.literal_of(h, r.args[2]) if x[0] == "str"} == {"/"}
                      for r in h.calls_to("alloc::str::<impl str>::replace"))
        if o and all(x[0] == "arg" for x in o) and reps_ok:
            ALLOWED = ALLOWED | {mir.strip_generics(c.callee())}
    sinks = [(c, 1) for c in pn.calls_to("std::collections::hash::map::HashMap::insert")] + [(c, 0) for c in pn.calls_to("bytecode::file::MScriptFile::open")]
    rep.floor("C04.entry-key uses of the entry path in Program::new", len(sinks), 2)
    for c, ai in sinks:
        l = op_local(c.args[ai])
        o = rules.origins(pn, l, transparent=ALLOWED) if l is not None else set()
        by_bb = {x.bb: x for x in pn.calls()}
        calls = [by_bb[x[1]] for x in o if x[0] == "call"]
        params = [x for x in o if x[0] == "arg"]
        other = [x for x in o if x[0] not in ("call", "arg")]
        st = "ok" if (params and not calls and not other) else ("violated" if calls else "undecided")
        rep.ob("C04.entry-key", "Program::new: the key given to %s is the path it was given (separators normalised, not resolved)" % mir.short(c.callee()), st,
               "the key derives from %s" % (sorted(mir.short(x.callee()) for x in calls) or sorted(str(x) for x in params + other)), c.span, fn=pn.path,
               key="C04.entry-key|%s" % mir.short(c.callee()))
    # the only rewriting allowed is `\\` -> `/`
    for c in pn.calls_to("alloc::str::<impl str>::replace"):
        k = op_const(c.args[1]) if len(c.args) > 1 else None
        to = rules.literal_of(pn, c.args[2]) if len(c.args) > 2 else None
        tos = {x[1] for x in to if isinstance(x, tuple) and x and x[0] == "str"} if isinstance(to, (list, set, tuple)) else {to}
        good = k is not None and k.get("int") == "92" and tos == {"/"}
        rep.ob("C04.entry-key", "Program::new rewrites only the path separator", "ok" if good else "violated", "replace(%s, %r)" % (k, to), c.span, fn=pn.path,
               key="C04.entry-key|separator")


def run(ctx, rep):
    F = ctx.facts("default", ["bytecode", "compiler", "bytecode_dev_transpiler"])
    rep.explain("C04: the writer CompiledItem::repr is evaluated abstractly (symbolic argument) to its per-argument output expression; the reader "
                "split_string_v2 is evaluated abstractly per (state, character class) to its transition table; round trip is decided by "
                "finite composition over all class singletons, pairs and the empty string. Plus literal/const agreement on record framing.")
    rep.assume("I/O errors are not modelled")
    _codecs.fresh_output_files(F, rep, "C04.fresh-file", ["compiler"], 1)
    entry_key(F, rep)
    from props import _strunits
    _strunits.unit_mix(F, rep, "C04.index-unit", ["compiler", "bytecode"])
    record_shapes(F, rep)
    log_arguments(F, rep)
    panic_is_not_success(ctx, rep)
    shared_options_share_their_defaults(ctx, rep)
    paths_are_not_respelled(ctx, rep)
    the_compiled_file_is_written(ctx, rep)
    text_is_written_by_character(ctx, rep)
    function_table_writers_agree(F, rep)
    rep.assume("a character not compared against any constant by the reader behaves like the class representative 'x' (the reader touches "
               "characters only through comparisons with constants and char::is_whitespace)")
    try:
        rf, tab = _codecs.reader(F)
        wf, rows = _codecs.w1_rows(F, text=False)
        nrows = _codecs.normalise(rows, F)
    except codec.ShapeChanged as e:
        rep.ob("C04.roundtrip", "extract codec tables", "undecided", "ANCHOR-SHAPE-CHANGED: %s" % e, None)
        # fail closed: a writer/reader the extractor cannot read is not a pass (exit 2, no VIOLATION line)
        rep.floor("C04.codec tables extracted (writer/reader in a form the extractor understands)", 0, 1)
        return
    rep.floor("C04.codec tables extracted (writer/reader in a form the extractor understands)", 1, 1)
    rep.extra["writer_W1_binary"] = [{"when": r["cond_text"], "per_argument_output": codec.expr_str(r["expr"])} for r in nrows]
    rep.extra["reader_state_vars"] = tab.names
    rep.extra["reader_classes"] = tab.classes
    rep.extra["reader_transitions"] = len(tab.delta)
    rep.floor("C04.reader transitions", len(tab.delta), 40)
    # the binary record is '{id}{args}\0' (checked under C04.framing below): NUL frames records, so a NUL inside an argument ends the record early
    bin_sep = "\x00" if [t for t in _codecs.final_template(wf) if t and t[-1] == "\x00"] else None
    _codecs.report_roundtrip(rep, "C04.roundtrip", "binary(W1,R)", tab, nrows, wf.span, wf.path, record_sep=bin_sep)

    # ---- framing -------------------------------------------------------------------------------
    T = opcodes.tables(F)
    ids = T["ids"]
    rep.floor("C04.opcode constants", len(ids), 40)
    big = {n: v for n, v in ids.items() if v >= 128}
    rep.ob("C04.framing", "every opcode id is one UTF-8 byte (< 128)", "ok" if not big else "violated", "ids >= 128: %s" % big,
           None, fn="bytecode::instruction_constants::id")
    temps = [t for t in _codecs.final_template(wf)]
    bin_t = [t for t in temps if t and t[-1] == "\x00" and t.count("{}") == 2 and len(t) == 3]
    rep.ob("C04.framing", "binary instruction record is '{id}{args}\\0'", "ok" if bin_t else "violated", "templates: %r" % temps, wf.span, fn=wf.path)
    # id written as a char cast of the u8
    casts = [rv for bi, si, dst, rv, s in wf.assigns() if "cast" in rv and rv["from"] == "u8" and rv["to"] == "char"]
    rep.ob("C04.framing", "the id byte is written as `id as char`", "ok" if casts else "undecided", "", wf.span, fn=wf.path)
    # emitted instruction names / ids avoid the record markers
    lits = opcodes.instruction_literals(F)
    rep.floor("C04.instruction! uses", len(lits), 100)
    name_to_id = {n: i for i, n in enumerate(T["names"])}
    markers = {0: "NUL (record terminator)", ord("e"): "'e' (end-of-function marker)"}
    bad = []
    unknown = []
    for f, name, span, c in lits:
        if name is None:
            unknown.append((f.path, span))
            continue
        i = name_to_id.get(name)
        if i in markers:
            bad.append((name, i, f.path, span))
    for f, k, span in opcodes.id_const_uses(F):
        v = None
        if "int" in k:
            v = int(k["int"])
        elif "named" in k:
            v = ids.get(k["named"].split("::")[-1])
        if v in markers:
            bad.append((k.get("named"), v, f.path, span))
    rep.ob("C04.framing", "no emitted instruction has an id equal to a record marker (0, 'e')", "ok" if not bad else "violated",
           "offending emissions: %s" % bad[:4], None, fn="compiler::instruction!")
    if unknown:
        rep.ob("C04.framing", "instruction! with a non-literal name", "undecided", str(unknown[:3]), None)
    # ---- in-memory path ---------------------------------------------------------------------------
    conv = [f for f in F.find("core::convert::From::from") if f.d.get("impl_self") == "bytecode::instruction::Instruction" and "compiler" in f.path]
    if len(conv) != 1:
        raise AnchorMissing("impl From<CompiledItem> for Instruction")
    conv = conv[0]
    news = conv.calls_to("bytecode::instruction::Instruction::new")
    ok = False
    detail = ""
    if len(news) == 1:
        a = rules.trace_paths(conv, op_local(news[0].args[0]), transparent=set())
        b = rules.trace_paths(conv, op_local(news[0].args[1]), transparent=set())
        ok = a == {(("arg", 1), ("@Instruction", "id"))} and b == {(("arg", 1), ("@Instruction", "arguments"))}
        detail = "id<-%s arguments<-%s" % (sorted(str(x) for x in a), sorted(str(x) for x in b))
    rep.ob("C04.in-memory", "From<CompiledItem> for Instruction passes (id, arguments) verbatim", "ok" if ok else "violated", detail, conv.span, fn=conv.path)
    inew = need(F, "bytecode::instruction::Instruction::new")
    aggs = [(rv, s) for bi, si, dst, rv, s in inew.assigns() if "agg" in rv and rv["agg"].get("adt") == "bytecode::instruction::Instruction"]
    ok = len(aggs) == 1 and [rules.trace_paths(inew, op_local(o), transparent=set()) for o in aggs[0][0]["ops"]] == [{(("arg", 1), ())}, {(("arg", 2), ())}]
    rep.ob("C04.in-memory", "Instruction::new stores (id, arguments) verbatim", "ok" if ok else "violated", "", inew.span, fn=inew.path)
    # ---- loader -----------------------------------------------------------------------------------
    ss = need(F, "bytecode::instruction::split_string")
    calls = ss.calls_to("bytecode::instruction::split_string_v2")
    ok = len(calls) == 1 and (op_const(calls[0].args[1]) or {}).get("int") == "1" and \
        rules.trace_paths(ss, op_local(calls[0].args[0]), transparent=set()) == {(("arg", 1), ())} and calls[0].dst["l"] == 0
    rep.ob("C04.loader", "split_string(s) == split_string_v2(s, true)", "ok" if ok else "violated", "", ss.span, fn=ss.path)
    gf = need(F, "bytecode::file::MScriptFile::get_functions")
    sp = gf.calls_to("bytecode::instruction::split_string")
    ru = gf.calls_to("std::io::BufRead::read_until")
    okr = len(ru) == 1 and (op_const(ru[0].args[1]) or {}).get("int") == "0"
    rep.ob("C04.loader", "the loader splits records at NUL and tokenises arguments with split_string", "ok" if sp and okr else "violated",
           "split_string calls=%d read_until(0)=%s" % (len(sp), okr), gf.span, fn=gf.path)
    for c in gf.calls_to("bytecode::instruction::Instruction::new"):
        o = rules.origin_calls(gf, op_local(c.args[1]), transparent=rules.TRANSPARENT | {rules.TRY_BRANCH})
        ok = all(x.matches(("bytecode::instruction::split_string", "alloc::boxed::Box::new")) for x in o) or not o
        rep.ob("C04.loader", "loaded instruction keeps the tokens split_string produced", "ok" if ok else "violated",
               "arguments derive from %s" % [mir.short(x.callee()) for x in o], c.span, fn=gf.path)


def record_shapes(F, rep, rule="C04.framing"):
    """Every record of a binary file between a function label and its end is an instruction whose first byte is the opcode.  The loader
    singles out the label (`f `) and the end (`e`) by their first byte: a first-byte test whose value is the id of an instruction would take
    that instruction's records for something else (id 35, `neg`, is `#`).  The first-byte constants of get_functions' record match are read
    from the MIR and compared with the opcode ids; a test on an opcode's value is accepted only if every way on from it builds the
    instruction (Instruction::new) before the next record is read."""
    import opcodes
    gf = need(F, "bytecode::file::MScriptFile::get_functions")
    ids = opcodes.tables(F)["ids"]
    by_id = {}
    for k, v in ids.items():
        by_id.setdefault(v, k)
    rep.floor(rule + " opcode ids", len(by_id), 55)
    reads = gf.calls_to("std::io::BufRead::read_until")
    news = {c.bb for c in gf.calls_to("bytecode::instruction::Instruction::new")}
    if not reads or not news:
        raise AnchorMissing("read_until / Instruction::new in get_functions")
    header = reads[0].bb
    tests = []
    for bi, blk in enumerate(gf.blocks):
        t = blk["t"]
        if t["k"] != "switch" or t.get("dty") != "u8":
            continue
        pl = mir.op_place(t["discr"])
        pr = (pl or {}).get("p") or []
        if any(e[0] == "cidx" and e[1] == 0 and not e[3] for e in pr):
            for v, tg in t["targets"]:
                tests.append((bi, int(v), tg))
    rep.floor(rule + " first-byte tests of the record match", len(tests), 2)
    bad = []
    for bi, v, tg in tests:
        if v not in by_id:
            continue
        # every way from the matched edge back to the next read goes through Instruction::new?
        reach = gf.reachable(tg, removed_blocks=news)
        if header in reach:
            bad.append((v, by_id[v], gf.blocks[bi]["t"].get("sp")))
    for v, name, sp in bad:
        rep.ob(rule, "a record that starts with byte %d (%r) is the instruction %s" % (v, chr(v), name), "violated",
               "the loader recognises another record shape by that first byte and goes on without building the instruction: every `%s` read from a file is dropped"
               % name.lower(), sp, fn=gf.path, key="%s|first-byte|%s" % (rule, name))
    if not bad:
        rep.ob(rule, "no record shape other than an instruction is recognised by a first byte that is an opcode", "ok",
               "first-byte constants %s; opcode ids 0..%d" % (sorted({chr(v) for _, v, _ in tests}), max(by_id)), gf.span, fn=gf.path, key=rule + "|first-byte")


def log_arguments(F, rep):
    """`mscript run` installs a logger (max level Trace); `execute` installs none, so the arguments of log::trace! / debug! in the interpreter are
    evaluated under `run` only.  They must therefore be free of anything that can fail or change state -- in this code base: of borrows of the
    interpreter's RefCell / GcCell cells (a borrow that conflicts with a live guard panics) -- or the two ways of running a program differ."""
    from props import _borrows
    C = _borrows.Cells(F, "bytecode")
    touching = set()
    for table in (C.direct_mut, C.direct_sh):
        touching |= C.closure(set(table))
    n, hits = 0, []
    for f in F.crates["bytecode"].fns:
        logs = [c for c in f.calls() if c.callee().startswith("log::__private_api::log") and not f.blocks[c.bb].get("cleanup")]
        if not logs:
            continue
        doms = f.dominators()
        for L in logs:
            n += 1
            # the `level <= max_level()` test of this log statement: the nearest dominating switch on a PartialOrd::le result tagged with the log macro
            gate = None
            for c in f.calls():
                if c.callee().endswith("PartialOrd::le") and any("log" in m for m in (c.t.get("mc") or [])) and c.bb in doms.get(L.bb, ()) and c.target is not None:
                    if gate is None or gate.bb in doms.get(c.bb, ()):
                        gate = c
            if gate is None:
                continue
            der = f.derived([gate.dst["l"]])
            sws = [x for x in rules.bool_switches(f, der) if x[3] is not None and x[0] in doms.get(L.bb, ())]
            if not sws:
                continue
            bb, t_t, f_t, pol = sws[-1]
            enabled = t_t if pol else f_t
            region = {b for b in f.reachable(enabled) if L.bb in f.reachable(b) and enabled in doms.get(b, ())}
            for c in f.calls():
                if c.bb in region and c is not L and not f.blocks[c.bb].get("cleanup"):
                    d = c.t["func"].get("def") or ""
                    cal = c.callee()
                    if d.startswith(_borrows.CELL_PREFIXES) and d.split("::")[-1] in _borrows.MUT_METHODS + _borrows.SH_METHODS or cal in touching:
                        hits.append((f, L, c))
    for f, L, c in hits:
        rep.ob("C04.log-arguments", "%s: an argument of the log statement at %s borrows an interpreter cell (%s)" % (mir.short(f.path), L.span, mir.short(c.callee())),
               "violated", "evaluated under `run` (logger installed) but not under `execute`: a conflict with a live guard aborts one way of running the program and not the other",
               c.span, fn=f.path, key="C04.log-arguments|%s|%s" % (mir.short(f.path), mir.short(c.callee())))
    if not hits:
        rep.ob("C04.log-arguments", "no argument of a log statement in the interpreter borrows a cell (%d log statements)" % n, "ok", "", None,
               key="C04.log-arguments|summary")
    rep.floor("C04.log-arguments log statements in crate bytecode", n, 15)



def shared_options_share_their_defaults(ctx, rep, rule="C04.cli-defaults"):
    """`run FILE` and `compile FILE` + `execute FILE.mmm` are the same program run by the same interpreter only if the interpreter is set up the same
    way: an option that several sub-commands offer under one name (`--stack-size`: each call of the program nests on the native stack, so the default
    is the program's maximum call depth) has one default.  Read from the clap-derived builder (Subcommand::augment_subcommands): per `Arg::long(NAME)`,
    the literal its builder chain hands to `default_value`."""
    F = ctx.facts("default", ["mscript-bin"])
    aug = [g for g in F.all_fns() if g.path.endswith("clap_builder::derive::Subcommand>::augment_subcommands")]
    if not aug:
        raise AnchorMissing("Subcommand::augment_subcommands of the CLI")
    by_name = {}
    for g in aug:
        for c in g.calls():
            if not mir.short(c.callee()).endswith("Arg::long") or c.dst is None:
                continue
            names = [x[1] for a in c.args[1:] for x in rules.literal_of(g, a) if x[0] == "str"]
            if len(names) != 1:
                continue
            der = g.derived([c.dst["l"]], through_call=lambda cc, idx: True if 0 in idx else None)
            for d in g.calls():
                if mir.short(d.callee()).endswith("Arg::default_value") and op_local(d.args[0]) in der:
                    lits = [x[1] for a in d.args[1:] for x in rules.literal_of(g, a) if x[0] == "str"]
                    by_name.setdefault(names[0], []).append((lits[0] if len(lits) == 1 else None, d.span, g))
    shared = {k: v for k, v in by_name.items() if len(v) >= 2}
    rep.floor(rule + " options offered by several sub-commands", len(shared), 2)
    if "stack-size" not in shared:
        raise AnchorMissing("--stack-size of run and execute")
    for name, v in sorted(shared.items()):
        vals = sorted({str(x[0]) for x in v})
        st = "undecided" if any(x[0] is None for x in v) else ("ok" if len(vals) == 1 else "violated")
        rep.ob(rule, "--%s has one default in the %d sub-commands that offer it" % (name, len(v)), st,
               "" if st == "ok" else ("defaults %s: a program between the two limits (a recursion of that depth) finishes under one command and aborts under the other" % vals),
               v[0][1], fn=v[0][2].path, key="%s|%s" % (rule, name))


def paths_are_not_respelled(ctx, rep, rule="C04.path-spelling"):
    """`run` keeps the entry module in memory under whatever key the path is spelled with; `compile` writes files and `execute` opens them.  A path
    that is re-spelled on the way (a `\\` folded into `/`) still names the in-memory module, but no longer the file on disk: on this platform `\\`
    is an ordinary character of a file name, and `a\\b.ms` runs but cannot be executed.  So, in a build for a platform whose separator is `/`, no
    `replace('\\', "/")` is applied to a path (a Windows-only rewrite is absent from the analysed build by `#[cfg(windows)]`)."""
    F = ctx.facts("default", ["mscript-bin", "bytecode", "compiler", "bytecode_dev_transpiler"])
    n = 0
    for g in F.all_fns():
        for c in g.calls():
            if not (c.callee().endswith("::replace") and "str" in c.callee()) or len(c.args) < 3:
                continue
            n += 1
            pat = rules.literal_of(g, c.args[1])
            to = rules.literal_of(g, c.args[2])
            if any(x[0] == "int" and x[1] == "92" for x in pat) and any(x[0] == "str" and x[1] == "/" for x in to):
                rep.ob(rule, "%s does not fold `\\` into `/` on a platform where `\\` is an ordinary character" % mir.short(g.path), "violated",
                       "replace('\\\\', \"/\") on a module path: a source file named `a\\b.ms` runs (`run` keeps the module in memory under the rewritten key) but "
                       "`compile` + `execute` looks for `a/b.mmm` and fails", c.span, fn=g.path, key="%s|%s" % (rule, mir.short(g.path)))
    rep.floor(rule + " text replacements looked at", n, 1)
    rep.ob(rule, "every str::replace of the four crates was looked at for the pattern ('\\', \"/\")", "ok", "%d calls" % n, None, key=rule + "|census")


def the_compiled_file_is_written(ctx, rep, rule="C04.output-written"):
    """`execute X.mmm` runs what `compile X.ms` wrote; `run X.ms` runs what it has just compiled in memory.  The two are the same program only if
    compile writes the file it was asked for, every time: perform_file_io_out (the only writer of .mmm files) has no successful return that does not
    pass through the flush of what was written - a "the output looks newer than the source, nothing to do"
    shortcut leaves whatever is on disk (an older revision restored with its old timestamp, the text form of the same source) to be executed."""
    F = ctx.facts("default", ["compiler"])
    g = [f for f in F.crates["compiler"].fns if f.path.endswith("::perform_file_io_out") and f.kind != "Closure"]
    if len(g) != 1:
        raise AnchorMissing("compiler::perform_file_io_out")
    g = g[0]
    flushes = {c.bb for c in g.calls() if mir.short(c.callee()).endswith(("Write>::flush", "Write::flush", "File::sync_all", "Write>::write_all", "Write::write_all"))}
    okr = set(rules.ok_return_blocks(g))
    if not flushes or not okr:
        raise AnchorMissing("the flush / Ok return of perform_file_io_out")
    free = g.reachable(0, removed_blocks=flushes) & okr
    rep.ob(rule, "perform_file_io_out has no successful return that has not written (and flushed) the output", "violated" if free else "ok",
           ("an Ok return is reachable from the entry without the write: `compile` can leave the file on disk as it was, and `execute` runs that, "
            "while `run` runs the current source") if free else "%d flush / write sites, each Ok return behind one" % len(flushes), g.span, fn=g.path, key=rule)


def text_is_written_by_character(ctx, rep, rule="C04.codec-text"):
    """An instruction argument is text: the serializers (CompiledItem::repr, Instruction::repr and what they call) escape it character by character.
    A writer that walks the *bytes* of the text and pushes each as a char (`b as char`) re-encodes everything that is not ASCII as Latin-1: `é` reaches
    the file as `Ã©`, `execute` prints mojibake where `run` (whose entry module never goes through the file) prints the text.  So: no u8 -> char cast
    in the serializers of the two crates."""
    F = ctx.facts("default", ["bytecode", "compiler"])
    roots = [g for g in F.all_fns() if g.kind != "Closure" and g.path.endswith(("CompiledItem::repr", "Instruction::repr"))]
    rep.floor(rule + " serializers", len(roots), 1)
    seen, work = {}, list(roots)
    while work:
        g = work.pop()
        if g.path in seen:
            continue
        seen[g.path] = g
        for b in [g] + F.closures_of(g):
            seen.setdefault(b.path, b)
            for c in b.calls():
                h = F.fn(c.callee())
                if h is not None and h.path.startswith(("compiler::", "bytecode::", "<compiler::", "<bytecode::")) and len(seen) < 40:
                    work.append(h)
    bad = []
    for g in seen.values():
        # values that come out of walking the bytes of a text
        src = [c.dst["l"] for c in g.calls() if mir.strip_generics(c.callee()).endswith(("::bytes", "::as_bytes", "::into_bytes", "::as_bytes_mut")) and c.dst is not None]
        der = g.derived(src, through_call=lambda c, idx: True) if src else {}
        for bi, si, dst, rv, st in g.assigns():
            if rv.get("cast") == "IntToInt" and (rv.get("ty") or rv.get("to")) == "char":
                l = op_local(rv["op"]) if "op" in rv else None
                if l is not None and l in der:
                    bad.append("%s at %s" % (mir.short(g.path), st.get("sp")))
    rep.ob(rule, "the bytecode serializers push text by character (no byte is cast to a char)", "violated" if bad else "ok",
           ("u8 -> char casts in %s: a non-ASCII character in an argument that also needs escaping is written as its Latin-1 bytes" % sorted(set(bad))[:3]) if bad
           else "%d functions under the serializers looked at" % len(seen), roots[0].span, fn=roots[0].path, key=rule)


def panic_is_not_success(ctx, rep):
    """`run` and `execute` both run the program on a thread of its own and join it.  The two commands agree on success / failure only if a
    thread that died of a panic is a failure in both: the `Err` a `JoinHandle::join` yields never reaches an `Ok` return of `main`.  Each join
    in the binary is judged: its result is unwrapped / re-raised (`unwrap`, `expect`, `resume_unwind`), or matched with an `Err` edge from which
    no Ok return is reachable."""
    F = ctx.facts("default", ["mscript-bin", "bytecode", "compiler", "bytecode_dev_transpiler"])
    n = 0
    for cr in F.crates.values():
        for f in cr.fns:
            for c in f.calls():
                if not (c.callee().split("::")[-1] == "join" and "JoinHandle" in c.callee()):
                    continue
                n += 1
                key = "C04.exit-status|join#%d" % n
                inst = "%s: a panicked interpreter thread does not end in a successful exit (join #%d)" % (mir.short(f.path), n)
                users = [x for x in f.calls() if x.args and op_local(x.args[0]) == c.dst["l"]]
                if any(x.matches(("core::result::Result::unwrap", "core::result::Result::expect", "std::panic::resume_unwind")) or
                       mir.short(x.callee()) in ("Result::<T, E>::unwrap", "Result::unwrap", "Result::<T, E>::expect", "Result::expect") for x in users):
                    rep.ob("C04.exit-status", inst, "ok", "the join result is unwrapped", c.span, fn=f.path, key=key)
                    continue
                # every test of the join result (the local itself, copies and borrows of it): take the `it is Ok` edges away everywhere at once -
                # what is still reachable from the join is what runs when the thread panicked
                holders = {c.dst["l"]}
                changed = True
                while changed:
                    changed = False
                    for bi, si, dst, rv, s_ in f.assigns():
                        pl = (mir.op_place(rv["use"]) if "use" in rv else None) or rv.get("ref")
                        if pl and pl["l"] in holders and not [e for e in pl.get("p", []) if e[0] != "deref"] and dst["l"] not in holders:
                            holders.add(dst["l"])
                            changed = True
                ok_edges = set()
                tests = 0
                for bb, blk in enumerate(f.blocks):
                    t = blk["t"]
                    if t["k"] != "switch":
                        continue
                    dl = op_local(t["discr"])
                    for s_ in blk["s"]:
                        if "d" in s_ and s_["d"]["l"] == dl and "discr" in s_["rv"]:
                            pl = s_["rv"]["discr"]
                            if pl["l"] in holders and not [e for e in pl.get("p", []) if e[0] != "deref"]:
                                tests += 1
                                for v, tg in t["targets"]:
                                    if str(v) == "0":
                                        ok_edges.add((bb, tg))
                                if "0" not in [str(v) for v, _ in t["targets"]]:
                                    ok_edges.add((bb, t["otherwise"]))
                # `finished.is_ok()` / `is_err()`
                for x in f.calls():
                    nm = mir.short(x.callee())
                    if x.args and op_local(x.args[0]) in holders and nm.split("::")[-1] in ("is_ok", "is_err"):
                        der = f.derived([x.dst["l"]])
                        for bb, t_t, f_t, pol in rules.bool_switches(f, der):
                            if pol is None:
                                continue
                            truth = pol if nm.endswith("is_ok") else (not pol)
                            ok_edges.add((bb, t_t if truth else f_t))
                            tests += 1
                if not tests:
                    rep.ob("C04.exit-status", inst, "undecided", "the join result is neither unwrapped nor tested in a form this rule reads", c.span, fn=f.path, key=key)
                    continue
                reach = f.reachable(c.target, removed_edges=ok_edges) if c.target is not None else set()
                oks = [b for b in rules.ok_return_blocks(f) if b in reach]
                rep.ob("C04.exit-status", inst, "violated" if oks else "ok",
                       ("with every `the join result is Ok` edge taken away an Ok return of %s is still reachable: the command exits 0 although the interpreter "
                        "died of a panic (the sibling command re-raises it and exits 101)" % mir.short(f.path)) if oks else "%d tests of the join result; its Err side never reaches an Ok return" % tests,
                       c.span, fn=f.path, key=key)
    rep.floor("C04.exit-status thread joins in the binary", n, 2)


def function_table_writers_agree(F, rep, rule="C04.function-table"):
    """`run` builds the function table of the entry file in memory (MScriptFileBuilder::add_function -> Functions::add_function), `execute` builds
    it by reading the file (MScriptFile::get_functions).  The two tables have to bind every label to the same body - also when a label occurs
    twice (classes of one name declared in two function bodies share their labels: known finding C08.code-label).  Every writer of a
    `HashMap<String, Function>` in crate bytecode is found by the type of its receiver; all of them must apply the same policy, and the policy
    read from today's tree is the plain `HashMap::insert` (the last definition wins): an entry-API / contains_key / try_insert writer keeps the
    first one, and the same bytecode then runs differently from a file."""
    import re
    writers = {}
    for f in F.crates["bytecode"].fns:
        for c in f.calls():
            cal = mir.strip_generics(c.callee() or "")
            if not re.search(r"HashMap::(insert|entry|try_insert|extend|get_or_insert_with)$|hash_map::(Entry|VacantEntry|OccupiedEntry)::\w+$|map::(Entry|VacantEntry|OccupiedEntry)::\w+$", cal):
                continue
            l = mir.op_local(c.args[0]) if c.args else None
            ty = f.locals[l] if l is not None else ""
            if "bytecode::function::Function" not in ty or "String" not in ty:
                continue
            writers.setdefault(f.path, []).append((mir.short(cal), c))
    rep.floor(rule + " writers of a function table", len(writers), 2)
    for path, lst in sorted(writers.items()):
        kinds = sorted({k for k, _ in lst})
        plain = kinds == ["HashMap::insert"]
        rep.ob(rule, "%s writes a label into the function table with a plain insert (a repeated label: the last definition wins, in memory and from a file alike)" % mir.short(path),
               "ok" if plain else "violated",
               "" if plain else "the table is written through %s: a label that occurs twice is bound to a different body than the other loader binds it to" % kinds,
               lst[0][1].span, fn=path, key="%s|%s" % (rule, mir.short(path)))
