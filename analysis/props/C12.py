"""C12 — optional values: `get`, `or`, `?=` (structural clauses).

What is decided, each by reading the code as a finite table or a symbolic sequence (nothing is run):
  get   * the parser builds `file:line:col` of the `get` token, stores it in Expr::UnaryUnwrap.span, and the generator emits
          `<value> unwrap <span>`;
        * the `unwrap` handler, evaluated abstractly on the three shapes the top of the stack can have: nil -> Err whose message
          formats args[0]; present optional -> Ok, top replaced by the held value; plain value -> Ok, unchanged.
  or    * the generator emits `<x> jmp_not_nil <n> <y>` with n = len(code(y)) + 1 (lands right after y);
        * the `jmp_not_nil` handler: nil -> the nil is popped and execution falls into y (no jump); present -> Goto(n), value kept.
  ?=    * the generator emits `<e> unwrap_into <name>` for an identifier target;
        * the `unwrap_into` handler: present optional -> the held value is stored under the name, `true` is pushed; nil -> nil is stored,
          `false` is pushed; plain value -> stored, `true`.
  ==    * equals(nil, K) and equals(K, nil) never fail for any kind K (a nil test is total); that a present optional *is* the plain
          value at run time (no boxed present optional is ever built) is C02.optional-rep.
Not decided: which branch a particular program takes (run-time nil/present state), optionals inside containers and fields beyond
these handlers.
"""
import absint
import mir
import rules
import seqgen
import tables
from absint import Interp, Variant, Opaque, Ptr, Str, Int, NONE, some
from core import AnchorMissing
from mir import op_local, op_const

PRIM = tables.PRIM
TOP = 9000      # synthetic local in frame -1 holding the top of the operand stack


def handler(F, name):
    f = F.fn("bytecode::instruction::implementations::" + name)
    if f is None:
        raise AnchorMissing("instruction handler " + name)
    return f


def run_handler(F, T, fn, top_value, arg0=None):
    """Evaluate a handler with the given value on top of the operand stack.  Returns [(kind, info dict)] per path."""
    def ensure_top(p):
        fr = p.frames.setdefault(-1, {})
        if TOP not in fr:
            fr[TOP] = top_value
        return fr

    def last_mut(it, p, fid, f, t, args):
        ensure_top(p)
        return some(Ptr(-1, TOP))

    def pop(it, p, fid, f, t, args):
        fr = ensure_top(p)
        n = fr.get("pops", 0)
        fr["pops"] = n + 1
        p.events.append(("pop",))
        return some(fr[TOP]) if n == 0 else NONE

    def first(it, p, fid, f, t, args):
        return some(Str(arg0)) if arg0 is not None else NONE

    def signal(it, p, fid, f, t, args):
        p.events.append(("signal", args[1] if len(args) > 1 else None))
        return absint.UNIT

    def push(it, p, fid, f, t, args):
        p.events.append(("push", args[1] if len(args) > 1 else None))
        return absint.UNIT

    def register(it, p, fid, f, t, args):
        p.events.append(("register", args[1] if len(args) > 1 else None, args[2] if len(args) > 2 else None))
        return absint.ok(absint.UNIT)

    def parse(it, p, fid, f, t, args):
        return absint.ok(Opaque("offset", "isize"))

    def moved(it, p, fid, f, t, args):
        # move_out_of_heap_primitive(_borrow): identity for values that are not views
        v = args[0]
        n = 0
        while isinstance(v, Ptr) and n < 6:
            v = it.deref(p, v)
            n += 1
        return absint.ok(v)
    models = dict(tables.MODELS)
    models.update({
        "bytecode::context::Ctx::get_last_op_item_mut": last_mut,
        "bytecode::context::Ctx::get_last_op_item": last_mut,
        "bytecode::context::Ctx::pop": pop,
        "core::slice::<impl [T]>::first": first,
        "bytecode::context::Ctx::signal": signal,
        "bytecode::context::Ctx::push": push,
        "bytecode::context::Ctx::register_variable_local": register,
        "bytecode::context::Ctx::register_variable": register,
        "core::str::<impl str>::parse": parse,
        "bytecode::variables::primitive::Primitive::move_out_of_heap_primitive": moved,
        "bytecode::variables::primitive::Primitive::move_out_of_heap_primitive_borrow": moved,
        "alloc::string::String::as_str": absint._ident,
        "alloc::borrow::ToOwned::to_owned": absint._ident,
    })
    it = Interp(F, models=models, max_depth=6, max_paths=256)
    outs = it.run(fn, [Opaque("ctx"), Opaque("args")])
    T.evals += 1
    res = []
    for o in outs:
        info = {"events": o.events, "top": (o.frames.get(-1, {}) if hasattr(o, "frames") else {}).get(TOP) if hasattr(o, "frames") else None, "data_dep": o.data_dep}
        if o.kind == "return" and isinstance(o.value, Variant) and o.value.adt == "core::result::Result":
            res.append(("Ok" if o.value.name == "Ok" else "Err", info))
        elif o.kind == "panic":
            res.append(("Panic", info))
        else:
            res.append(("?", info))
    return res, it.exhausted


def run(ctx, rep):
    F = ctx.facts("default", ["bytecode", "compiler"])
    from props import _keywords
    rep.floor("C12.keyword-boundary nil judged", _keywords.run(F, rep, "C12.keyword-boundary", only={"nil"}), 1)
    T = tables.Tables(F)
    rep.explain("C12: the three optional-handling instruction handlers are read as decision tables over {nil, present optional, plain value} by abstract "
                "interpretation; the generators of `get`, `or`, `?=` are evaluated to symbolic instruction sequences; the `get` position string is traced "
                "from the parser to the handler's message.")
    rep.assume("which of nil / present a value is at a given point of a given program is not decided")
    NIL = T.prim_value("Nil", "top")
    kinds = ["Int", "Str", "Bool", "Float", "BigInt", "Byte", "Vector"]

    def present(k):
        return Variant(PRIM, T.prim_names.index("Optional"), "Optional", [some(T.prim_value(k, "held"))])

    # ---- get: handler table -------------------------------------------------------------------------------
    un = handler(F, "unwrap")
    res, ex = run_handler(F, T, un, NIL, arg0="f.ms:1:2")
    kinds_out = {k for k, _ in res}
    rep.ob("C12.get", "`get nil` stops the program with an error (unwrap handler on nil)", "ok" if kinds_out == {"Err"} and not ex else "violated",
           "outcomes on nil: %s" % sorted(kinds_out), un.span, fn=un.path, key="C12.get|handler|nil")
    for k in kinds:
        res, ex = run_handler(F, T, un, T.prim_value(k, "plain"), arg0="f.ms:1:2")
        ko = {x for x, _ in res}
        rep.ob("C12.get", "`get` on a present %s succeeds" % k.lower(), "ok" if ko == {"Ok"} and not ex else "violated", "outcomes: %s" % sorted(ko),
               un.span, fn=un.path, key="C12.get|handler|present|%s" % k.lower())
    # the nil message formats args[0]
    okmsg = False
    for c, pieces, args in rules.fmt_calls(un):
        if pieces and any("unwrap of" in x or "nil" in x for x in pieces if isinstance(x, str)) and args:
            for a in args:
                if a is None:
                    continue
                oc = rules.origin_calls(un, a[1], transparent=rules.TRANSPARENT | {"core::option::Option::map", "core::option::Option::unwrap_or",
                                                                                   "core::option::Option::unwrap_or_default"})
                if any(x.matches(("core::slice::<impl [T]>::first", "core::ops::index::Index::index", "core::slice::<impl [T]>::get")) for x in oc):
                    okmsg = True
    rep.ob("C12.get", "the error of `get nil` names the position the instruction carries (args[0])", "ok" if okmsg else "violated", "", un.span, fn=un.path,
           key="C12.get|handler|message")
    # ---- get: position from the parser to the instruction ------------------------------------------------------------
    pe = F.fn("compiler::ast::math_expr::parse_expr")
    if pe is None:
        raise AnchorMissing("math_expr::parse_expr")
    okpos = False
    detail = "no UnaryUnwrap construction found"
    for g in [pe] + F.closures_of(pe):
        for bi, si, dst, rv, s in g.assigns():
            if "agg" in rv and rv["agg"].get("adt", "").endswith("math_expr::Expr") and rv["agg"].get("v") == "UnaryUnwrap":
                for c, pieces, args in rules.fmt_calls(g):
                    if pieces == ["{}", ":", "{}", ":", "{}"] and len(args) == 3 and all(a is not None for a in args):
                        tps = [rules.trace_paths(g, a[1], transparent=rules.TRANSPARENT) for a in args]
                        lc = {x.bb for x in g.calls() if x.matches(("pest::iterators::pair::Pair::line_col", "pest::position::Position::line_col"))}
                        src = {x.bb for x in g.calls_to("compiler::parser::AssocFileData::get_source_file_name")}
                        order = (tps[0] and all(o[0] == "call" and o[1] in src for o, _ in tps[0]) and
                                 tps[1] and all(o[0] == "call" and o[1] in lc and f == ("0",) for o, f in tps[1]) and
                                 tps[2] and all(o[0] == "call" and o[1] in lc and f == ("1",) for o, f in tps[2]))
                        fm = [x for x in g.calls() if x.matches("alloc::fmt::format") and op_local(x.args[0]) == c.dst["l"]]
                        der = g.derived([x.dst["l"] for x in fm], through_call=lambda cc, idx: True if cc.matches(("core::hint::must_use", "alloc::boxed::Box::new")) else None)
                        a_ = F.adt(rv["agg"]["adt"])
                        vi = [i for i, v in enumerate(a_["variants"]) if v["name"] == "UnaryUnwrap"][0]
                        names = [x["name"] for x in a_["variants"][vi]["fields"]]
                        stored = op_local(rv["ops"][names.index("span")]) in der
                        okpos = bool(order and stored)
                        detail = "file,line,col order=%s stored as UnaryUnwrap.span=%s" % (bool(order), stored)
    rep.ob("C12.get", "the parser builds `file:line:col` of the `get` token and stores it in the node", "ok" if okpos else "violated", detail, pe.span, fn=pe.path,
           key="C12.get|parser|position")
    # ... of the `get` token itself: in the prefix callback of the Pratt parser the operator token is the parameter of type Pair; the other
    # parameter (a Result holding the operand and *its* pair) gives the position of the operand, which is a different column
    tok_ok, tok_detail, judged = True, "", 0
    for g in [pe] + F.closures_of(pe):
        if not any("agg" in rv and rv["agg"].get("v") == "UnaryUnwrap" and rv["agg"].get("adt", "").endswith("math_expr::Expr") for _, _, _, rv, _ in g.assigns()):
            continue
        for x in g.calls():
            if not x.matches(("pest::iterators::pair::Pair::line_col",)):
                continue
            judged += 1
            l = op_local(x.args[0])
            tps = rules.trace_paths(g, l, transparent=rules.TRANSPARENT | {"core::option::Option::as_ref", "core::option::Option::unwrap", "core::option::Option::expect",
                                                                           rules.TRY_BRANCH}) if l is not None else set()
            origins = sorted({o for o, _ in tps}, key=str)
            good = bool(origins) and all(o[0] == "arg" and g.locals[o[1]].lstrip("&").startswith("pest::iterators::pair::Pair<") for o in origins)
            if not good:
                tok_ok = False
                tok_detail = ("the position comes from %s: the pair of the operand, not the `get` token (`print    get x` reports the column of x)"
                              % [("parameter %d: %s" % (o[1], g.locals[o[1]][:60])) if o[0] == "arg" else str(o) for o in origins])
    rep.ob("C12.get", "the position stored for a `get` is that of the `get` token (the operator parameter of the prefix callback)",
           "ok" if (tok_ok and judged) else ("undecided" if not judged else "violated"), tok_detail, pe.span, fn=pe.path, key="C12.get|parser|token")
    cd = F.fn("compiler::ast::math_expr::compile_depth")
    ea = F.adt("compiler::ast::math_expr::Expr")
    en = [v["name"] for v in ea["variants"]]
    rows, ex = seqgen.sequences(F, cd, [Variant("compiler::ast::math_expr::Expr", en.index("UnaryUnwrap"), "UnaryUnwrap", [Opaque("lhs"), Opaque("span")]),
                                        Opaque("state"), Opaque("depth")])
    seqs = [r["seq"] for r in rows if r["seq"] is not None]
    okseq = bool(seqs) and not ex and all(len(s) == 2 and s[0][0] == "code" and s[1][:2] == ("ins", "unwrap") and s[1][2] == 1 for s in seqs)
    rep.ob("C12.get", "`get x` compiles to `<x> unwrap <position>` (one argument)", "ok" if okseq else "violated", "emitted: %s" % [seqgen_show(s) for s in seqs][:2], cd.span, fn=cd.path,
           key="C12.get|emission")
    # ---- or ---------------------------------------------------------------------------------------------------------
    jn = handler(F, "jmp_not_nil")
    res, ex = run_handler(F, T, jn, NIL, arg0="3")
    oknil = bool(res) and not ex and all(k == "Ok" and any(e[0] == "pop" for e in i["events"]) and not any(e[0] == "signal" for e in i["events"]) for k, i in res)
    rep.ob("C12.or", "`(nil) or y`: the nil is dropped and y is evaluated (jmp_not_nil pops and does not jump)", "ok" if oknil else "violated",
           "outcomes: %s" % [(k, [e[0] for e in i["events"] if e[0] in ("pop", "signal")]) for k, i in res][:4], jn.span, fn=jn.path, key="C12.or|handler|nil")
    for k in kinds:
        res, ex = run_handler(F, T, jn, T.prim_value(k, "plain"), arg0="3")
        okp = bool(res) and not ex and all(kk == "Ok" and any(e[0] == "signal" for e in i["events"]) and not any(e[0] == "pop" for e in i["events"]) for kk, i in res)
        rep.ob("C12.or", "`(present %s) or y`: y is skipped and the value is kept (jmp_not_nil jumps, does not pop)" % k.lower(), "ok" if okp else "violated",
               "outcomes: %s" % [(kk, [e[0] for e in i["events"] if e[0] in ("pop", "signal")]) for kk, i in res][:4], jn.span, fn=jn.path,
               key="C12.or|handler|present|%s" % k.lower())
    rows, ex = seqgen.sequences(F, cd, [Variant("compiler::ast::math_expr::Expr", en.index("NilEval"), "NilEval", [Opaque("lhs"), Opaque("rhs")]),
                                        Opaque("state"), Opaque("depth")])
    seqs = [r["seq"] for r in rows if r["seq"] is not None]
    shape = bool(seqs) and not ex and all(len(s) == 3 and s[0][0] == "code" and s[0][1].startswith("lhs") and s[1][:2] == ("ins", "jmp_not_nil") and s[1][2] == 1 and s[2][0] == "code"
                                          and s[2][1].startswith("rhs") for s in seqs)
    rep.ob("C12.or", "`(x) or y` compiles to `<x> jmp_not_nil <n> <y>`", "ok" if shape else "violated", "emitted: %s" % [seqgen_show(s) for s in seqs][:2], cd.span, fn=cd.path,
           key="C12.or|emission")
    # n = len(code(y)) + 1: the only `Vec::len() + const` in the NilEval arm feeding the instruction's argument
    okn = False
    detail = "no `fallback.len() + 1` found"
    for bi, si, dst, rv, s in cd.assigns():
        if "bin" in rv and rv["bin"] in ("AddWithOverflow", "Add") and rv.get("lty") == "usize":
            k = op_const(rv["r"])
            l = op_local(rv["l"])
            if k is None or l is None:
                continue
            oc = rules.origin_calls(cd, l)
            if any(x.matches("alloc::vec::Vec::len") for x in oc):
                # which generator arm: the one that also emits jmp_not_nil after this block
                reach = cd.reachable(bi)
                import opcodes
                emits = [c for f_, nm, sp, c in opcodes.instruction_literals(F) if f_ is cd and nm == "jmp_not_nil" and c.bb in reach]
                others = [c for f_, nm, sp, c in opcodes.instruction_literals(F) if f_ is cd and nm == "store_skip" and c.bb in reach]
                if emits and not others:
                    okn = k.get("int") == "1"
                    detail = "skip operand = len(fallback code) + %s" % k.get("int")
    rep.ob("C12.or", "the skip count of jmp_not_nil is len(code(y)) + 1 (lands on the instruction after y)", "ok" if okn else "violated", detail, cd.span, fn=cd.path,
           key="C12.or|skip-count")
    # ---- ?= ------------------------------------------------------------------------------------------------------------
    ui = handler(F, "unwrap_into")

    def table(top, want_bool, what, key):
        res, ex = run_handler(F, T, ui, top, arg0="a")
        good = bool(res) and not ex
        seen = []
        for k, i in res:
            regs = [e for e in i["events"] if e[0] == "register"]
            pushes = [e for e in i["events"] if e[0] == "push"]
            b = None
            if pushes and isinstance(pushes[-1][1], Variant) and pushes[-1][1].name == "Bool" and pushes[-1][1].fields and isinstance(pushes[-1][1].fields[0], Int):
                b = bool(pushes[-1][1].fields[0].v)
            seen.append((k, len(regs), b))
            if k != "Ok" or len(regs) != 1 or b is not want_bool:
                good = False
        rep.ob("C12.unwrap-into", what, "ok" if good else "violated", "outcomes (result, stores, pushed bool): %s" % seen[:4], ui.span, fn=ui.path, key=key)
    table(NIL, False, "`a ?= nil` stores nil into a and yields false", "C12.unwrap-into|handler|nil")
    for k in kinds:
        table(T.prim_value(k, "plain"), True, "`a ?= <present %s>` stores the value into a and yields true" % k.lower(), "C12.unwrap-into|handler|present|%s" % k.lower())
    oa = F.adt("compiler::ast::math_expr::Op")
    on = [v["name"] for v in oa["variants"]]
    va = F.adt("compiler::ast::value::Value")
    vn = [v["name"] for v in va["variants"]]
    ident_lhs = Variant("compiler::ast::math_expr::Expr", en.index("Value"), "Value", [Variant("compiler::ast::value::Value", vn.index("Ident"), "Ident", [Opaque("ident")])])
    rows, ex = seqgen.sequences(F, cd, [Variant("compiler::ast::math_expr::Expr", en.index("BinOp"), "BinOp",
                                                [ident_lhs, Variant("compiler::ast::math_expr::Op", on.index("Unwrap"), "Unwrap", []), Opaque("rhs")]),
                                        Opaque("state"), Opaque("depth")],
                                extra_models={"compiler::ast::math_expr::compile_depth": _compile_any})
    seqs = [r["seq"] for r in rows if r["seq"] is not None]
    oku = bool(seqs) and not ex and all(len(s) == 2 and s[0][0] == "code" and s[0][1].startswith("rhs") and s[1][:2] == ("ins", "unwrap_into") and s[1][2] == 1 for s in seqs)
    rep.ob("C12.unwrap-into", "`a ?= e` compiles to `<e> unwrap_into a`", "ok" if oku else "violated", "emitted: %s" % [seqgen_show(s) for s in seqs][:2], cd.span, fn=cd.path,
           key="C12.unwrap-into|emission")
    # ---- == nil is total ---------------------------------------------------------------------------------------------------
    bad = []
    for k in ["Int", "Str", "Bool", "Float", "BigInt", "Byte", "Nil"]:
        for a, b in (("Nil", k), (k, "Nil")):
            rt = T.runtime("equals", a, b)
            if any(x[0] in ("Err", "Panic") and not x[2] for x in rt) or not any(x[0] == "Ok" for x in rt):
                bad.append("%s == %s -> %s" % (a, b, sorted(rt, key=str)[:2]))
    rep.ob("C12.nil-test", "`x == nil` never fails, whatever kind x holds", "violated" if bad else "ok", "; ".join(bad)[:300], None, key="C12.nil-test|equals")
    # a `get x` written as a statement is still executed (the statement generator emits `<expr> void` for every expression)
    from props import C15 as _c15
    _c15.statements_emit_their_expression(F, rep, "C12.get", only=("Value",))
    rep.floor("C12.handler evaluations", T.evals, 25)
    or_never_elided(F, rep)
    unwrap_into_binds_like_store(F, rep)
    # the decision tables above put a *value* on the operand stack; `xs[i]`, `o.f` and `m[k]` put a view there, which is never nil itself:
    # the handlers have to copy the value out before they look at it (shared rule with C01 / C02)
    from props import _viewread
    _viewread.run(F, rep, "C12.view-read")
    operands_are_dependencies(F, rep)
    present_optional_compares_with_plain(F, rep)
    # `x == nil` / `nil != f(..)`: the equality operators are compiled like every binary operator - the left value (nil too) is parked while the right
    # operand runs (C15's clauses for Eq / Neq, read here as "the nil test works whatever stands on the other side")
    from props import C15 as _c15
    from core import Report as _Report
    tmp = _Report("C15", rep.tier)
    _c15.run(ctx, tmp)
    k_ = 0
    for o in tmp.obligations:
        if o["key"] in ("C15.parked|Eq", "C15.parked|Neq", "C15.order|binop|Eq", "C15.order|binop|Neq"):
            k_ += 1
            rep.ob("C12.nil-test", o["instance"], o["status"], o["detail"], o["where"], key=o["key"].replace("C15.", "C12.nil-test|", 1), fn=o.get("fn"))
    rep.floor("C12.nil-test clauses", k_, 4)

def present_optional_compares_with_plain(F, rep, rule="C12.eq-plain"):
    """`A present optional compares equal to the plain value it holds`: the comparison has to be expressible.  For every kind K whose values can
    be compared (`K == K` is accepted by get_output_type), `K? == K` and `K == K?` are accepted too, with the result bool (the run-time side,
    Primitive::equals on the plain representations, is C02.op-table).  Read from the type checker's operator table by abstract evaluation."""
    from props import _optables
    from props.C02 import COMPOUND, kname
    from tables import NATIVE
    O = _optables.get(F)
    T = O.T
    n = 0
    for K in list(NATIVE) + list(COMPOUND):
        for op in ("Eq", "Neq"):
            base = {k for (tag, k, dd) in T.static(op, K, K) if tag == "Some"}
            if base != {"Bool"}:
                continue
            for l, r in ((("Opt", K), K), (K, ("Opt", K))):
                st = T.static(op, l, r)
                n += 1
                somes = {k for (tag, k, dd) in st if tag == "Some"}
                und = [x for x in st if x[0] in ("Undecided", "Panic")]
                v = "ok" if somes == {"Bool"} and not und else ("undecided" if und else "violated")
                rep.ob(rule, "%s(%s, %s) is accepted where %s(%s, %s) is" % (op, kname(l), kname(r), op, kname(K), kname(K)), v,
                       "" if v == "ok" else "static result %s: a present `%s?` cannot be compared with the `%s` it holds" % (sorted(map(str, st))[:3], kname(K).lower(), kname(K).lower()),
                       None, fn="compiler::ast::type::TypeLayout::get_output_type", key="%s|%s|%s,%s" % (rule, op, kname(l), kname(r)))
    rep.floor(rule + " cells", n, 20)


def operands_are_dependencies(F, rep, rule="C12.visit"):
    """`(x) or y` yields the value of `y` when x is nil, `get x` the value of x: inside a function literal that outlives its creator the
    names these operands mention have to be captured, which they are only if the dependency walk reads every code-bearing field of the
    optional forms (Expr::NilEval, Expr::UnaryUnwrap).  The general walk check (C07.visit) is run and the obligations of those forms kept."""
    import core
    from props import _visit
    tmp = core.Report("C12", rep.tier)
    _visit.run(F, tmp, rule)
    kept = [o for o in tmp.obligations if o["instance"].startswith(("Expr::NilEval", "Expr::UnaryUnwrap"))]
    for o in kept:
        rep.obligations.append(o)
    rep.floor(rule + " code-bearing fields of the optional forms", len(kept), 3)


def seqgen_show(seq):
    return " ".join(("<%s>" % x[1].split(".")[0]) if x[0] == "code" else x[1] for x in seq)


def _compile_any(it, p, fid, fn, t, args):
    """compile_depth on a child while evaluating the ?= generator: every child's code is a symbol, also a known identifier expression."""
    recv = seqgen.deref_all(it, p, args[0])
    if isinstance(recv, Opaque):
        return absint.ok(seqgen.Seq([("code", recv.tag)]))
    if isinstance(recv, Variant) and len(p.stack) > 1:
        return absint.ok(seqgen.Seq([("code", "lhs")]))
    return NotImplemented


def or_never_elided(F, rep):
    """`(x) or y` is not compiled away for any x that can be nil.  The builder of the `or` form (the function that constructs Expr::NilEval) may
    return the primary alone only on paths where the type of x has been tested not to be -- or wrap -- an optional: for each TypeLayout variant the
    paths consistent with `type of x is that variant` are followed (edge removal on the tests of its discriminant); the bare primary must not be
    returned for Optional, nor for the wrappers that can hold one (CallbackVariable: a captured variable; Alias)."""
    EXPRA = "compiler::ast::math_expr::Expr"
    TLA = "compiler::ast::r#type::TypeLayout"
    tl = F.adt(TLA)
    if tl is None:
        raise AnchorMissing(TLA)
    tln = [v["name"] for v in tl["variants"]]
    sites = []
    for f in F.crates["compiler"].fns:
        for bi, si, d, rv, s_ in f.assigns():
            if "agg" in rv and rv["agg"].get("adt") == EXPRA and rv["agg"].get("v") == "NilEval":
                sites.append((f, bi, rv))
    rep.floor("C12.or builders of the `or` form", len(sites), 1)
    for f, nb, rv in sites:
        prim = op_local(rv["ops"][0])
        # the primary expression: follow the Box::new / moves back to the local holding the parsed primary
        def back(start):
            chain = set()
            work = [start]
            while work:
                l = work.pop()
                if l is None or l in chain:
                    continue
                chain.add(l)
                for bb_, si, d, r2, _s in f.assigns():
                    if d.get("l") == l and not d.get("p") and "use" in r2 and op_local(r2["use"]) is not None:
                        work.append(op_local(r2["use"]))
                for c in f.calls():
                    if c.dst and c.dst.get("l") == l and c.matches("alloc::boxed::Box::new"):
                        work.append(op_local(c.args[0]))
            return chain
        chain = back(prim)
        # returns of a tuple whose first component is the bare primary
        bare = []
        for bi, si, d, r2, s_ in f.assigns():
            if "agg" in r2 and r2["agg"].get("k") == "tuple" and r2["ops"] and op_local(r2["ops"][0]) is not None and bi != nb and (
                    back(op_local(r2["ops"][0])) & chain) and f.locals[op_local(r2["ops"][0])].strip() == EXPRA:
                bare.append((bi, s_.get("sp")))
        if not bare:
            rep.ob("C12.or", "the builder of `(x) or y` always builds the `or` form (x is never returned alone)", "ok", "", f.span, fn=f.path, key="C12.or|builder|never-elided")
            continue
        # the type of the primary: result of the for_type call on it (through `?`)
        ty_locals = [l for l, ty in enumerate(f.locals) if ty.strip() == TLA]
        doms = f.dominators()
        cand = [l for l in ty_locals if any(bb_ in doms.get(nb, ()) for bb_, si, d, r2, _s in f.assigns() if d.get("l") == l)]
        bad, undec = [], []
        for bi, sp in bare:
            reached_for = []
            decided = False
            for vi, vn in enumerate(tln):
                removed = set()
                for b2, blk in enumerate(f.blocks):
                    t = blk["t"]
                    if t["k"] != "switch" or t.get("dty") != "isize":
                        continue
                    dl = op_local(t["discr"])
                    src = None
                    for s2 in blk["s"]:
                        if "d" in s2 and s2["d"].get("l") == dl and "discr" in s2["rv"]:
                            src = s2["rv"]["discr"]
                    if src is None:
                        continue
                    base = src["l"]
                    # a discriminant of the type local itself or of a reference to it
                    is_ty = base in cand and not [e for e in src.get("p", []) if e[0] != "deref"]
                    if not is_ty:
                        for bb_, si, d, r2, _s in f.assigns():
                            if d.get("l") == base and "ref" in r2 and r2["ref"].get("l") in cand and not r2["ref"].get("p"):
                                is_ty = True
                    if not is_ty:
                        continue
                    decided = True
                    taken = t["otherwise"]
                    for v, tg in t["targets"]:
                        if int(v) == vi:
                            taken = tg
                    for v, tg in t["targets"]:
                        if tg != taken:
                            removed.add((b2, tg))
                    if t["otherwise"] != taken:
                        removed.add((b2, t["otherwise"]))
                if bi in _reach_with_bools(f, removed):
                    reached_for.append(vn)
            if not decided:
                undec.append("the bare primary is returned at %s under a test that is not a match on its type" % sp)
            else:
                risky = [v for v in reached_for if v in ("Optional", "CallbackVariable", "Alias")]
                if risky:
                    bad.append("x is returned alone at %s when its type is %s (a captured or aliased optional can be nil: y is never evaluated)" % (sp, " / ".join(risky)))
        rep.ob("C12.or", "the builder of `(x) or y` returns x alone only when its type cannot hold nil", "violated" if bad else ("undecided" if undec else "ok"),
               "; ".join(bad or undec), f.span, fn=f.path, key="C12.or|builder|never-elided")


def _reach_with_bools(f, removed):
    """blocks reachable from the entry without the removed edges, also pruning the edges of bool tests whose operand can only have one value on
    the remaining paths (constants assigned in reachable blocks, copies, negations): keeps `a || b` / `if !flag` correlated with the match
    that computed them"""
    removed = set(removed)
    for _ in range(8):
        reach = f.reachable(0, removed_edges=removed)
        vals = {}

        def get(l):
            return vals.get(l, None)
        changed = True
        rounds = 0
        while changed and rounds < 10:
            changed = False
            rounds += 1
            new = {}
            for bi_, si, d, rv, s_ in f.assigns():
                if bi_ not in reach or d.get("p") or f.locals[d["l"]].strip() != "bool":
                    continue
                v = None
                if "use" in rv:
                    k = op_const(rv["use"])
                    if k is not None and k.get("ty") == "bool":
                        v = {k.get("int") == "1"}
                    elif op_local(rv["use"]) is not None:
                        v = set(vals.get(op_local(rv["use"]), {True, False}))
                elif rv.get("un") == "Not" and op_local(rv["op"]) is not None:
                    v = {not x for x in vals.get(op_local(rv["op"]), {True, False})}
                if v is None:
                    v = {True, False}
                new.setdefault(d["l"], set()).update(v)
            for c in f.calls():
                if c.bb in reach and c.dst and not c.dst.get("p") and f.locals[c.dst["l"]].strip() == "bool":
                    new.setdefault(c.dst["l"], set()).update({True, False})
            if new != vals:
                vals = new
                changed = True
        more = set()
        for b2 in reach:
            t = f.blocks[b2]["t"]
            if t["k"] == "switch" and t.get("dty") == "bool":
                dl = op_local(t["discr"])
                vs = vals.get(dl)
                if vs is not None and len(vs) == 1:
                    val = next(iter(vs))
                    f_t = next((tg for v, tg in t["targets"] if v == "0"), None)
                    t_t = t["otherwise"]
                    dead = f_t if val else t_t
                    if dead is not None and (b2, dead) not in removed:
                        more.add((b2, dead))
        if not more:
            return reach
        removed |= more
    return f.reachable(0, removed_edges=removed)


def unwrap_into_binds_like_store(F, rep):
    """`a ?= e` *stores into a*: it is an assignment to the variable `a`, like `a = e`.  The handlers of the two (unwrap_into, store) are siblings and
    must bind the name through the same primitive -- Ctx::register_variable, which looks for an existing `a` in the block frames of the running
    function and writes through its cell.  A handler that inserts into the top frame instead (register_variable_local) makes `a ?= e` inside an
    `if` / loop body create a second `a`, and replaces the cell a closure captured."""
    H = "bytecode::instruction::implementations::"
    PRIMS = ("bytecode::context::Ctx::register_variable", "bytecode::context::Ctx::register_variable_local", "bytecode::context::Ctx::ref_variable",
             "bytecode::context::Ctx::update_callback_variable")
    got = {}
    for name in ("store", "unwrap_into"):
        f = handler(F, name)
        got[name] = sorted({mir.short(c.callee()) for c in f.calls() if c.matches(PRIMS) and not f.blocks[c.bb].get("cleanup")})
    same = got["store"] == got["unwrap_into"] and got["store"]
    rep.ob("C12.unwrap-into", "`a ?= e` binds `a` through the same primitive as `a = e`", "ok" if same else "violated",
           "store uses %s, unwrap_into uses %s" % (got["store"], got["unwrap_into"]), handler(F, "unwrap_into").span, fn=H + "unwrap_into",
           key="C12.unwrap-into|binds-like-store")
