"""Built-in signature agreement (C02 b, C13 a, C14 a).

Three hand-written tables must agree for every (receiver kind, method name):
  T-static-builtin : TypeLayout::get_property_type  -> declared signature
  T-rt-lookup      : Primitive::lookup -> PrimitiveModule accessor -> BuiltInFunction variant
  T-rt-builtin     : BuiltInFunction::run arm of that variant -> the Primitive variant each
                     argument is destructured as (else `unreachable!()`), and the result kinds
All three are read by abstract interpretation of the MIR.
"""
import absint
import mir
import rules
import tables
from absint import Interp, Int, Str, Variant, Opaque, Tup, Ptr, some, NONE
from mir import op_local, op_const
from core import AnchorMissing
from tables import PRIM, TL, NT

BIF = "bytecode::function::BuiltInFunction"

# static receiver head -> run-time receiver kind
RECV = {"Bool": "Bool", "Str": "Str", "Int": "Int", "BigInt": "BigInt", "Float": "Float", "Byte": "Byte",
        "List": "Vector", "Map": "Map", "Function": "Function"}
GROUPS = {
    "list": ["List"], "map": ["Map"], "str": ["Str"], "num": ["Int", "BigInt", "Float", "Byte"], "other": ["Bool", "Function"],
}


def _ident(it, p, fid, fn, t, args):
    return args[0]


class Builtins:
    def __init__(self, F):
        self.F = F
        self.T = tables.Tables(F)
        self.gpt = F.fn("compiler::ast::r#type::TypeLayout::get_property_type")
        self.lookup = F.fn(PRIM + "::lookup")
        self.run = F.fn(BIF + "::run")
        self.modnew = F.fn("bytecode::stack::PrimitiveModule::new")
        for x, n in ((self.gpt, "get_property_type"), (self.lookup, "Primitive::lookup"), (self.run, "BuiltInFunction::run"), (self.modnew, "PrimitiveModule::new")):
            if x is None:
                raise AnchorMissing(n)
        self._accessor_variant = None
        self._arms = {}
        self.evals = 0

    # ---- name universe ------------------------------------------------------------------------------
    def names(self):
        out = set()
        for f in (self.gpt, self.lookup):
            for c in f.calls():
                if c.matches(("core::cmp::PartialEq::eq", "core::cmp::PartialEq::ne")):
                    for a in c.args:
                        for lit in rules.literal_of(f, a):
                            if lit[0] == "str":
                                out.add(lit[1])
            for kind, val, where in rules.string_literals(f):
                pass
        # string patterns of `match name { "len" => .. }` compile to eq calls; also memcmp-style: collect plain literals
        for f in (self.gpt, self.lookup):
            for kind, val, where in rules.string_literals(f):
                if kind == "str" and val.isidentifier() and len(val) < 40:
                    out.add(val)
        return sorted(out)

    # ---- static ----------------------------------------------------------------------------------------
    def norm_type(self, v):
        """Abstract TypeLayout value -> kind descriptor."""
        n = 0
        while isinstance(v, Variant) and n < 10:
            n += 1
            if v.adt == "alloc::borrow::Cow" and v.fields:
                v = v.fields[0]
                continue
            if v.adt.endswith("ScopeReturnStatus"):
                if v.name == "Void":
                    return "void"
                if v.fields:
                    v = v.fields[0]
                    continue
                return "?" + v.name
            break
        if isinstance(v, Variant) and v.adt == TL:
            if v.name == "Native" and v.fields and isinstance(v.fields[0], Variant):
                return v.fields[0].name
            if v.name == "Optional":
                inner = v.fields[0] if v.fields else None
                if isinstance(inner, Variant) and inner.name == "Some":
                    return ("Opt", self.norm_type(inner.fields[0]))
                if isinstance(inner, Variant) and inner.name == "None":
                    return "Nil"
                return ("Opt", "?")
            if v.name == "Void":
                return "void"
            return v.name      # List, Map, Function, Class, Generic ...
        if isinstance(v, Variant) and v.adt.endswith("ListType"):
            return "List"
        if isinstance(v, Opaque):
            return "?"
        return "?" + repr(v)[:30]

    def static_sig(self, recv, name):
        it = Interp(self.F, models=tables.MODELS, max_depth=8, max_paths=256)
        outs = it.run(self.gpt, [self.T.tl_value(recv, "self"), Str(name)])
        self.evals += 1
        sigs = set()
        undecided = []
        for o in outs:
            if o.kind != "return":
                undecided.append("%s %s" % (o.kind, o.value))
                continue
            v = o.value
            if isinstance(v, Variant) and v.name == "None":
                sigs.add(None)
                continue
            if not (isinstance(v, Variant) and v.name == "Some"):
                undecided.append(repr(v)[:80])
                continue
            x = v.fields[0]
            n = 0
            while isinstance(x, Variant) and x.adt == "alloc::borrow::Cow" and n < 4:
                x = x.fields[0]
                n += 1
            if isinstance(x, Variant) and x.adt == TL and x.name == "Function" and isinstance(x.fields[0], Variant):
                ft = x.fields[0]
                params = ft.fields[0]
                plist = None
                if isinstance(params, Variant) and params.fields and isinstance(params.fields[0], Tup):
                    plist = tuple(self.norm_type(q) for q in params.fields[0].fields)
                ret = self.norm_type(ft.fields[1])
                if plist is None:
                    undecided.append("parameters %r" % (params,))
                else:
                    sigs.add((plist, ret))
            else:
                undecided.append(repr(x)[:80])
        if it.exhausted:
            undecided.append("path bound")
        return sigs, undecided

    # ---- lookup -----------------------------------------------------------------------------------------
    def accessor_variant(self):
        if self._accessor_variant is None:
            tr = _ident
            models = dict(tables.MODELS)
            for n in ("gc::Gc::new", "gc::GcCell::new", "std::sync::poison::mutex::Mutex::new", "std::sync::Mutex::new", "std::sync::mutex::Mutex::new"):
                models[n] = tr
            it = Interp(self.F, models=models, max_depth=2, max_paths=8)
            outs = it.run(self.modnew, [])
            if len(outs) != 1 or not isinstance(outs[0].value, Variant):
                raise AnchorMissing("PrimitiveModule::new could not be evaluated")
            mod = outs[0].value
            adt = self.F.adt("bytecode::stack::PrimitiveModule")
            fields = [f["name"] for f in adt["variants"][0]["fields"]]
            m = {}
            for fname, val in zip(fields, mod.fields):
                v = val
                for _ in range(8):
                    if isinstance(v, Variant) and v.adt == BIF:
                        break
                    if isinstance(v, Variant) and v.fields:
                        v = v.fields[0]
                    else:
                        break
                m[fname] = v.name if isinstance(v, Variant) and v.adt == BIF else None
            # accessor -> field: the accessor body projects exactly one field of self
            acc = {}
            for f in self.F.crates["bytecode"].fns:
                if f.d.get("impl_self") == "bytecode::stack::PrimitiveModule" and f.kind == "AssocFn" and f.d.get("name") != "new":
                    fs = set()
                    for bi, si, dst, rv, s in f.assigns():
                        pl = rv.get("ref") or (mir.op_place(rv.get("use")) if "use" in rv else None)
                        if pl and pl["l"] == 1:
                            for e in pl.get("p", []):
                                if e[0] == "field":
                                    fs.add(e[2])
                    if len(fs) == 1:
                        acc[f.path] = m.get(fs.pop())
            self._accessor_variant = acc
        return self._accessor_variant

    def rt_lookup(self, recv_rt, name):
        it = Interp(self.F, models=tables.MODELS, max_depth=4, max_paths=128)
        outs = it.run(self.lookup, [self.T.prim_value(recv_rt, "self"), Str(name)])
        self.evals += 1
        res = set()
        acc = self.accessor_variant()
        for o in outs:
            if o.kind == "return" and isinstance(o.value, Variant) and o.value.name == "Ok" and isinstance(o.value.fields[0], Variant):
                inner = o.value.fields[0]
                if inner.name == "Ok":
                    ent = [e[1] for e in o.events if e[0] == "enter" and e[1] in acc]
                    res.add(("builtin", acc[ent[-1]]) if ent else ("?", "Ok without accessor"))
                else:
                    res.add(("missing", None))
            else:
                res.add(("?", "%s %r" % (o.kind, o.value)))
        return res

    # ---- run arms ---------------------------------------------------------------------------------------
    def arm(self, variant, recv_kind=None, recv_payload=None):
        ck = (variant, recv_kind, repr(recv_payload))
        if ck in self._arms:
            return self._arms[ck]
        adt = self.F.adt(BIF)
        names = [v["name"] for v in adt["variants"]]
        prim_names = self.T.prim_names

        def args_model(it, p, fid, fn, t, a):
            return Opaque("ARGS")

        def is_args(it, p, v):
            n = 0
            while isinstance(v, Ptr) and n < 6:
                v = it.deref(p, v)
                n += 1
            return isinstance(v, Opaque) and v.tag.startswith("ARGS")
        recv_val = self.T.prim_value(recv_kind, "arg0", recv_payload) if recv_kind else Opaque("arg0", "&" + PRIM)

        def first(it, p, fid, fn, t, a):
            if is_args(it, p, a[0]):
                p.events.append(("argidx", 0))
                return some(recv_val)
            return NotImplemented

        def get(it, p, fid, fn, t, a):
            if is_args(it, p, a[0]) and isinstance(a[1], Int):
                p.events.append(("argidx", a[1].v))
                return some(recv_val if a[1].v == 0 else Opaque("arg%d" % a[1].v, "&" + PRIM))
            return NotImplemented

        def remove(it, p, fid, fn, t, a):
            if is_args(it, p, a[0]) and isinstance(a[1], Int):
                p.events.append(("argidx", a[1].v))
                return Opaque("arg%d" % a[1].v, PRIM)
            return NotImplemented

        def nxt(it, p, fid, fn, t, a):
            return NONE
        models = dict(tables.MODELS)
        models.update({
            "bytecode::context::Ctx::ref_clear_local_operating_stack": args_model,
            "core::slice::<impl [T]>::first": first,
            "core::slice::<impl [T]>::get": get,
            "alloc::vec::Vec::remove": remove,
            "core::iter::traits::iterator::Iterator::next": nxt,
        })
        it = Interp(self.F, models=models, max_depth=3, max_paths=2048, loop_bound=3,
                    inline=lambda path: path.startswith(BIF + "::run"))
        outs = it.run(self.run, [Variant(BIF, names.index(variant), variant, []), Opaque("ctx")])
        self.evals += 1
        calls_seen = set()
        req = {}        # arg index -> set of kinds on non-panicking paths
        rets = set()
        bridge = False
        touched = set()
        n_ok = 0
        und = []
        for o in outs:
            if o.kind == "panic":
                continue
            if o.kind != "return":
                und.append("%s %s" % (o.kind, o.value))
                continue
            n_ok += 1
            for e in o.events:
                if e[0] == "argidx":
                    touched.add(e[1])
                elif e[0] == "call":
                    calls_seen.add(e[1])
            for a in o.assume:
                tag, how = a[0], a[1]
                if isinstance(tag, str) and tag.startswith("discr:arg") and how[0] == "variant":
                    # 'discr:arg1.*' : the kind this path assumed for the argument
                    try:
                        idx = int(tag[len("discr:arg"):].split(".")[0])
                    except ValueError:
                        continue
                    if tag.count(".") <= 1:
                        req.setdefault(idx, set()).add(how[2])
            v = o.value
            if isinstance(v, Variant) and v.adt == "core::result::Result":
                if v.name == "Err":
                    continue
                tup = v.fields[0]
                if isinstance(tup, Tup) and len(tup.fields) == 2:
                    r0, r1 = tup.fields
                    if isinstance(r0, Variant) and r0.name == "None":
                        rets.add("void")
                    elif isinstance(r0, Variant) and r0.name == "Some":
                        k = self.T.kind_of(r0.fields[0])
                        rets.add(k if k is not None else "?" + repr(r0.fields[0])[:40])
                    else:
                        rets.add("?" + repr(r0)[:40])
                    if isinstance(r1, Variant) and r1.name == "Some":
                        bridge = True
                else:
                    rets.add("?" + repr(tup)[:40])
        if it.exhausted:
            und.append("path bound")
        n_err = sum(1 for o in outs if o.kind == "return" and isinstance(o.value, Variant) and o.value.adt == "core::result::Result" and o.value.name == "Err")
        n_panic = sum(1 for o in outs if o.kind == "panic")
        r = {"req": req, "rets": rets, "bridge": bridge, "touched": touched, "paths": n_ok, "undecided": und, "calls": calls_seen, "errs": n_err,
             "panics": n_panic}
        self._arms[ck] = r
        return r


# calls that move an existing element to another index (shrinking from the end / growing at the end only causes
# out-of-range failures, which the language defines)
POSITION_CHANGING = ("::reverse", "::remove", "::insert", "::swap_remove", "::drain", "::retain", "::swap", "::sort", "::sort_by",
                     "::sort_by_key", "::sort_unstable", "::rotate_left", "::rotate_right", "::fill", "::dedup")


def fixed_list_rule(B, rep, rule):
    """The static type of a fixed-shape list is positional ([int, str]): a built-in offered to a list that cannot be
    coerced to an open list must not move, add or remove elements, or `l[0]` keeps its static type but not its value."""
    F = B.F
    tl = F.adt(TL)
    tln = [v["name"] for v in tl["variants"]]
    lt = None
    for pth, a in F.crates["compiler"].adts.items():
        if pth.endswith("::ListType"):
            lt = (pth, a)
    if lt is None:
        raise AnchorMissing("ListType")
    ltn = [v["name"] for v in lt[1]["variants"]]
    if "Mixed" not in ltn:
        raise AnchorMissing("ListType::Mixed")
    # a list type that cannot be read as an open list: [int, str] (concrete, so that try_coerce_to_open is evaluated, not guessed)
    from props import _hashkeys
    recv = _hashkeys.Types(F).build(("Mixed", ["Int", "Str"]), "recv")
    ms_ = dict(tables.MODELS)
    ms_.update(_hashkeys._iter_models())
    n = 0
    for name in B.names():
        it = Interp(F, models=ms_, max_depth=10, max_paths=512)
        outs = it.run(B.gpt, [recv, Str(name)])
        B.evals += 1
        offered_unconditionally = False
        for o in outs:
            if o.kind == "return" and isinstance(o.value, Variant) and o.value.name == "Some":
                # a path that assumed the elements are all of one type (try_coerce_to_open succeeded) is a homogeneous list
                homog = any(isinstance(a[0], str) and "Iterator::all" in a[0] and a[1][0] == "otherwise" for a in o.assume)
                if not homog:
                    offered_unconditionally = True
        if not offered_unconditionally:
            continue
        n += 1
        rts = B.rt_lookup("Vector", name)
        variants = {x[1] for x in rts if x[0] == "builtin"}
        if len(variants) != 1 or None in variants:
            continue
        V = variants.pop()
        arm = B.arm(V, "Vector")
        moving = sorted(c for c in arm["calls"] if c.endswith(POSITION_CHANGING) and ("Vec" in c or "slice" in c or "[T]" in c))
        rep.ob(rule, "list.%s is offered to fixed-shape (positional) lists and preserves element positions" % name,
               "violated" if moving else "ok",
               "BuiltInFunction::%s calls %s: after it, a constant index into a list typed [T0, T1, ..] reads a value of another position's type" % (
                   V, [mir.short(m) for m in moving]) if moving else "", B.gpt.span, fn=B.gpt.path, key="%s|list.%s" % (rule, name))
    rep.floor(rule + " methods offered to fixed-shape lists", n, 3)


def ret_compatible(static_ret, rt_kinds):
    """Is every run-time result kind an inhabitant of the declared return type?"""
    bad = []
    for k in rt_kinds:
        if isinstance(k, str) and k.startswith("?"):
            continue
        if static_ret == "void":
            if k != "void":
                bad.append(k)
        elif isinstance(static_ret, tuple) and static_ret[0] == "Opt":
            inner = static_ret[1]
            if k == "Nil" or k == "Optional":
                continue
            if not kind_matches(inner, k):
                bad.append(k)
        else:
            if not kind_matches(static_ret, k):
                bad.append(k)
    return bad


def kind_matches(static_kind, rt_kind):
    if static_kind in ("?", "Generic") or (isinstance(static_kind, str) and static_kind.startswith("?")):
        return True
    m = {"List": "Vector", "Class": "Object"}
    return m.get(static_kind, static_kind) == rt_kind


def run(F, rep, rule, group):
    """group: None (all receivers) | 'list+map' | 'str+num'"""
    B = Builtins(F)
    names = B.names()
    rep.floor(rule + " method names", len(names), 40)
    acc = B.accessor_variant()
    rep.floor(rule + " accessors", len([a for a in acc.values() if a]), 50)
    heads = list(RECV)
    if group == "list+map":
        heads = ["List", "Map"]
    elif group == "str+num":
        heads = ["Str", "Int", "BigInt", "Float", "Byte"]
    pairs = 0
    for recv in heads:
        for name in names:
            sigs, und = B.static_sig(recv, name)
            real = {s for s in sigs if s is not None}
            rts = B.rt_lookup(RECV[recv], name)
            inst = "%s.%s" % (recv.lower(), name)
            key = "%s|%s.%s" % (rule, recv.lower(), name)
            fnp = B.gpt.path
            if not real:
                # not declared: nothing to check in this direction (the compiler rejects the call)
                continue
            pairs += 1
            if und and not real:
                rep.ob(rule, inst + ": declared signature", "undecided", str(und[:2]), B.gpt.span, fn=fnp, key=key)
                continue
            variants = {x[1] for x in rts if x[0] == "builtin"}
            missing = [x for x in rts if x[0] == "missing"]
            unk = [x for x in rts if x[0] == "?"]
            if unk:
                rep.ob(rule, inst + ": run-time lookup", "undecided", str(unk[:2]), B.lookup.span, fn=B.lookup.path, key=key + "|lookup")
                continue
            if missing or len(variants) != 1 or None in variants:
                rep.ob(rule, inst + " declared by the type checker exists at run time", "violated",
                       "Primitive::lookup(%s, %r) -> %s" % (RECV[recv], name, sorted(map(str, rts))), B.lookup.span, fn=B.lookup.path, key=key + "|lookup")
                continue
            V = variants.pop()
            arm = B.arm(V, RECV[recv])
            if arm["undecided"] and not arm["paths"]:
                rep.ob(rule, inst + " -> BuiltInFunction::%s" % V, "undecided", str(arm["undecided"][:2]), B.run.span, fn=B.run.path, key=key + "|arm")
                continue
            for (params, ret) in sorted(real, key=str):
                problems = []
                # receiver: evaluated with the receiver's kind; no surviving path = the arm rejects this receiver
                if not arm["paths"]:
                    problems.append("receiver: every path of BuiltInFunction::%s with a %s receiver ends in unreachable!()/panic" % (V, RECV[recv]))
                # arity
                mx = max(arm["touched"]) if arm["touched"] else 0
                if mx > len(params):
                    problems.append("arity: the implementation reads argument %d, the declared signature has %d parameter(s)" % (mx, len(params)))
                # parameter kinds
                for i, pk in enumerate(params, start=1):
                    need = arm["req"].get(i)
                    if not need:
                        continue
                    pk0 = pk[1] if isinstance(pk, tuple) else pk
                    if pk0 in ("?", "Generic") or (isinstance(pk0, str) and pk0.startswith("?")):
                        continue
                    if not any(kind_matches(pk0, k) for k in need):
                        problems.append("parameter %d: declared %s, the implementation destructures %s (else unreachable!())" % (i, pk, sorted(need)))
                # result
                bad = ret_compatible(ret, arm["rets"])
                if bad and not arm["bridge"]:
                    problems.append("result: declared %s, the implementation returns %s" % (ret, sorted(map(str, arm["rets"]))))
                rep.ob(rule, "%s(%s) -> %s agrees with BuiltInFunction::%s" % (inst, ", ".join(map(str, params)), ret, V),
                       "violated" if problems else "ok", "; ".join(problems), B.run.span, fn=B.run.path, key=key + "|sig")
    if group in (None, "list+map"):
        fixed_list_rule(B, rep, rule.split(".")[0] + ".fixed-list")
    rep.extra[rule + " declared (receiver, method) pairs"] = pairs
    rep.floor(rule + " declared pairs", pairs, 15 if group else 60)
    return B
