"""C03 (c) — per-construct guard table (rules/guards_c03.json).

Each instance says: in AST-builder function F, the construct is accepted (F returns Ok / reaches target) only on
paths where predicate P held.  Forms:
  bool  : P returns bool; every path to the target crosses a branch on a value derived from P's result on the edge P == want
  succeeds : P returns Option / Result; every path to the target crosses the Some / Ok / Continue edge of a test on a value
             derived from P's result (through `?`, as_ref, ok_or, context, details, to_err_vec ...)
"""
import mir
import rules
from mir import op_local, op_const, op_place
from core import AnchorMissing

CARRY = (
    "core::ops::try_trait::Try::branch", "core::option::Option::as_ref", "core::option::Option::as_deref", "core::option::Option::ok_or",
    "core::option::Option::ok_or_else", "anyhow::Context::context", "anyhow::Context::with_context", "compiler::CompilationError::details",
    "compiler::CompilationError::details_lazy_message", "compiler::VecErr::to_err_vec", "core::result::Result::map_err", "core::result::Result::as_ref",
    "core::option::Option::cloned", "core::option::Option::copied", "core::clone::Clone::clone", "core::ops::deref::Deref::deref",
    "compiler::ast::map_err", "compiler::ast::map_err_messages",
)


def pass_edges(fn, seeds, F=None):
    """Edges on which a value derived from `seeds` is known to be Some / Ok / Continue."""
    der = fn.derived(seeds, through_call=lambda c, idx: True if (c.matches(CARRY) and 0 in idx) else None)
    edges = set()
    n = 0
    for bi, blk in enumerate(fn.blocks):
        t = blk["t"]
        if t["k"] != "switch":
            continue
        dl = op_local(t["discr"])
        if dl is None:
            continue
        for s in blk["s"]:
            if "d" in s and s["d"]["l"] == dl and not s["d"].get("p") and "discr" in s["rv"]:
                pl = s["rv"]["discr"]
                if pl["l"] not in der:
                    continue
                if any(e[0] == "field" for e in pl.get("p", [])):
                    continue
                ty = fn.locals[pl["l"]].lstrip("&").strip()
                if ty.startswith("core::option::Option<"):
                    good = "1"
                elif ty.startswith(("core::result::Result<", "core::ops::control_flow::ControlFlow<")):
                    good = "0"
                else:
                    # a local result-like enum (e.g. TypeSearchResult::Ok)
                    import absint
                    a = F.adt(absint.adt_of_type(ty)) if F is not None else None
                    names = [v["name"] for v in a["variants"]] if a else []
                    if "Ok" in names:
                        good = str(names.index("Ok"))
                    elif "Some" in names:
                        good = str(names.index("Some"))
                    else:
                        continue
                tg = dict(t["targets"]).get(good, t["otherwise"])
                edges.add((bi, tg))
                n += 1
    # is_some()/is_ok() style tests
    for c in fn.calls():
        if c.args and op_local(c.args[0]) in der:
            pol = None
            if c.matches(("core::option::Option::is_some", "core::result::Result::is_ok")):
                pol = True
            elif c.matches(("core::option::Option::is_none", "core::result::Result::is_err")):
                pol = False
            if pol is None:
                continue
            d2 = fn.derived([c.dst["l"]])
            for bb, t_t, f_t, p2 in rules.bool_switches(fn, d2):
                if p2 is None:
                    continue
                truth_edge = t_t if (p2 == pol) else f_t
                edges.add((bb, truth_edge))
                n += 1
    return edges, n


def targets_of(fn, spec):
    if spec in (None, "ok-return"):
        return rules.ok_return_blocks(fn)
    if spec.startswith("agg:"):
        adt, variant = spec[4:].rsplit("::", 1)
        return sorted({bi for bi, si, dst, rv, s in fn.assigns() if "agg" in rv and rv["agg"].get("adt") == adt and rv["agg"].get("v") == variant})
    return [c.bb for c in fn.calls_to(spec)]


def find_fn(F, path):
    f = F.fn(path)
    if f is not None:
        return [f]
    # a closure of a named function: "<fn path>::{closure}" means any closure of it
    if path.endswith("::{closure}"):
        base = F.fn(path[:-len("::{closure}")])
        if base is not None:
            return F.closures_of(base)
    return []


def run(F, rep, ctx, prefix="C03", only=None):
    table = [i for i in ctx.rules("guards_c03.json")["instances"] if only is None or i["id"] in only]
    n_ok = 0
    for inst in table:
        fns = find_fn(F, inst["fn"])
        label = inst["label"]
        key = prefix + ".guard|%s" % inst["id"]
        if not fns:
            raise AnchorMissing(inst["fn"])
        verdicts = []
        for f in fns:
            preds = f.calls_to(tuple(inst["pred"]) if isinstance(inst["pred"], list) else inst["pred"])
            if not preds:
                continue
            tgts = targets_of(f, inst.get("target"))
            if not tgts:
                continue
            assumed = set()
            if inst.get("assume_succeeds"):
                pre = f.calls_to(inst["assume_succeeds"])
                pe, _n = pass_edges(f, [c.dst["l"] for c in pre], F)
                # keep only the passing edges of those tests: remove their other out-edges
                for (bb, tg) in pe:
                    for o in f.succs(bb):
                        if o != tg:
                            assumed.add((bb, o))
            if inst["kind"] == "bool":
                der = f.derived([c.dst["l"] for c in preds], through_call=lambda c, idx: True if c.matches(CARRY) else None)
                sws = rules.bool_switches(f, der)
                removed = set(assumed)
                for bb, t_t, f_t, pol in sws:
                    if pol is None:
                        continue
                    removed.add((bb, t_t if pol == inst.get("want", True) else f_t))
                if not sws:
                    v, info = "violated", {"reason": "no branch on the predicate"}
                else:
                    reach = f.reachable(0, removed_edges=removed)
                    bad = [b for b in tgts if b in reach]
                    v, info = ("violated" if bad else "ok"), {"switches": [x[0] for x in sws], "unguarded_targets": bad}
            else:
                edges, n = pass_edges(f, [c.dst["l"] for c in preds], F)
                if not n:
                    v, info = "violated", {"reason": "the result of the predicate is never tested"}
                else:
                    start = [c.bb for c in preds] if inst.get("from_pred") else 0
                    reach = f.reachable(start, removed_edges=edges | assumed)
                    bad = [b for b in tgts if b in reach]
                    v, info = ("violated" if bad else "ok"), {"tests": n, "unguarded_targets": bad}
            verdicts.append((f, v, info))
        if not verdicts:
            rep.ob(prefix + ".guard", label, "violated", "no call of %s guards this construct in %s any more" % (inst["pred"], inst["fn"]), fns[0].span,
                   fn=fns[0].path, key=key)
            continue
        # for closure families: the instance holds if it holds in every closure that calls the predicate
        worst = "ok"
        for f, v, info in verdicts:
            if v == "violated":
                worst = "violated"
            elif v == "undecided" and worst == "ok":
                worst = "undecided"
        f, v, info = next((x for x in verdicts if x[1] == worst), verdicts[0])
        rep.ob(prefix + ".guard", label, worst, str(info), f.span, fn=f.path, key=key)
        if worst == "ok":
            n_ok += 1
    rep.floor(prefix + ".guard instances", len(table), 15 if only is None else len(only))
