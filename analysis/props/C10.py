"""C10 — `const` names cannot be written by any syntactic form.

 1. the write forms are enumerated from the code: every emission site of a name-writing opcode
    (instruction! literal + the kind of its operand expressions) must be mapped to a guarded form or to an
    exemption with a reason; an unmapped user-name site is a *new write form*;
 2. each form's parser function tests const-ness (guarded-by, conditional on the name having existed);
 3. class names and import identifiers are created read-only.
"""
import json
import os
from collections import deque

import re
import mir
import opcodes
import rules
from mir import op_local, op_const, op_place
from core import AnchorMissing, VERIF

WRITE_OPS = {"store", "store_object", "store_fast", "bin_op_assign", "unwrap_into", "ptr_mut", "export_special", "split_lookup_store"}
IDENT_OPT = ("core::option::Option<compiler::ast::ident::Ident>", "core::option::Option<&compiler::ast::ident::Ident>",
             "&core::option::Option<compiler::ast::ident::Ident>")
IS_CONST = "compiler::ast::ident::Ident::is_const"


def need(F, path):
    f = F.fn(path)
    if f is None:
        raise AnchorMissing(path)
    return f


def emission_sites(F):
    """(fn, opcode, operand kinds tuple, span) for every instruction!(<write op> ..) in the compiler."""
    out = []
    for f, name, span, c in opcodes.instruction_literals(F):
        if name not in WRITE_OPS or c.target is None:
            continue
        dq = deque([c.target])
        seen = {c.target}
        kinds = []
        found = False
        while dq and not found:
            b = dq.popleft()
            blk = f.blocks[b]
            for s in blk["s"]:
                if "rv" in s and "agg" in s["rv"] and s["rv"]["agg"].get("adt") == "compiler::ast::CompiledItem" and s["rv"]["agg"].get("v") == "Instruction":
                    found = True
                    break
            if found:
                break
            t = blk["t"]
            if t["k"] == "call":
                cal = t["func"].get("res") or t["func"].get("def") or ""
                if "ToString" in cal or "to_string" in cal:
                    ty = (t["func"].get("ga") or ["?"])[0]
                    kinds.append(classify_operand(ty))
            for s2 in f.succs(b):
                if s2 not in seen:
                    seen.add(s2)
                    dq.append(s2)
        out.append((f, name, tuple(kinds), span))
    # id-constant emissions (CompiledItem::Instruction { id: SPLIT_LOOKUP_STORE, .. })
    for f, k, span in opcodes.id_const_uses(F):
        nm = (k.get("named") or "").split("::")[-1].lower()
        if nm in WRITE_OPS:
            out.append((f, nm, ("names",), span))
    return out


def classify_operand(ty):
    if "TemporaryRegister" in ty:
        return "temp"
    if "NumberLoopRegister" in ty:
        return "loop-register"
    if "CompiledFunctionId" in ty:
        return "function-id"
    if ty in ("str", "&str", "alloc::string::String", "&alloc::string::String") or "Cow<" in ty or "Box<str>" in ty:
        return "name"
    return ty


def _back(fn, local):
    """locals `local` is a plain copy / reborrow / deref / Deref::deref of (transitively)"""
    seen, work = set(), [local]
    while work:
        l = work.pop()
        if l is None or l in seen:
            continue
        seen.add(l)
        for d in rules.defs_of(fn, l):
            if d[0] == "assign":
                rv = d[4]
                pl = op_place(rv["use"]) if "use" in rv else (rv.get("ref") or rv.get("raw") or (op_place(rv["op"]) if "cast" in rv else None))
                if pl:
                    work.append(pl["l"])
            elif d[4].matches(tuple(rules.TRANSPARENT)) and d[4].args:
                work.append(op_local(d[4].args[0]))
    return seen


def write_forms(F, rep, forms, rule):
    """Every emission site of a name-writing opcode with a user-name operand is matched against rules/const_forms.json."""
    # ---- 1. enumerate ---------------------------------------------------------------------------------
    sites = emission_sites(F)
    rep.floor(rule + " emission sites", len(sites), 25)
    table = {(e["function"], e["opcode"], tuple(e["operands"])): e for e in forms["sites"]}
    used_forms = set()
    for f, opc, kinds, span in sites:
        fshort = mir.short(f.path)
        if kinds and all(k in ("temp", "function-id") for k in kinds):
            rep.ob(rule, "%s emits %s %s" % (fshort, opc, list(kinds)), "exempt",
                   "operand is a compiler temporary / generated id (its spelling is not an identifier)", span, fn=f.path,
                   key=rule + "|%s|%s|%s" % (fshort, opc, ",".join(kinds)))
            continue
        e = table.get((fshort, opc, kinds))
        key = rule + "|%s|%s|%s" % (fshort, opc, ",".join(kinds))
        if e is None:
            rep.ob(rule, "%s emits %s %s" % (fshort, opc, list(kinds)), "violated",
                   "new write form: a name-writing instruction with a user-name operand is emitted here but is not mapped to a const-checked "
                   "form (rules/const_forms.json)", span, fn=f.path, key=key)
        elif "exempt" in e:
            rep.ob(rule, "%s emits %s %s" % (fshort, opc, list(kinds)), "exempt", e["exempt"], span, fn=f.path, key=key)
        else:
            used_forms.add(e["form"])
            rep.ob(rule, "%s emits %s %s -> form `%s`" % (fshort, opc, list(kinds), e["form"]), "ok", "", span, fn=f.path, key=key)

    return used_forms


def run(ctx, rep):
    F = ctx.facts("default", ["bytecode", "compiler"])
    forms = ctx.rules("const_forms.json")
    rep.explain("C10: name-writing opcodes are collected from the compiler's instruction! literals with the type of each operand expression "
                "(user name vs compiler temporary), each site is matched against rules/const_forms.json, and each form's const test is checked "
                "as a guarded-by rule on the parser function's MIR (conditional on the looked-up name having existed).")
    rep.assume("scoping: which scopes a name lookup searches (has_name_been_mapped_in_function etc.) is taken as given")

    used_forms = write_forms(F, rep, forms, "C10.write-forms")

    # ---- 2. guards ---------------------------------------------------------------------------------------
    is_ident_opt = lambda ty: "core::option::Option<compiler::ast::ident::Ident>" in ty or "core::option::Option<&compiler::ast::ident::Ident>" in ty

    # assign / modify / unpack
    pa = need(F, "compiler::parser::Parser::assignment")
    v, info = rules.conditional_guard(pa, is_ident_opt, [IS_CONST], False, rules.ok_return_blocks(pa))
    rep.ob("C10.guard", "assignment (=, typed, modify, unpack): an existing const name is rejected", v, str(info), pa.span, fn=pa.path, key="C10.guard|assign")
    # the looked-up value really is the previous binding of the assigned name
    for sub in ("assignment_no_type", "assignment_type", "assignment_unpack"):
        g = need(F, "compiler::parser::Parser::" + sub)
        look = g.calls_to(("compiler::parser::AssocFileData::has_name_been_mapped_in_function",
                           "compiler::parser::AssocFileData::get_dependency_flags_from_name"))
        rep.ob("C10.guard", "%s looks the assigned name up before binding it" % sub, "ok" if look else "violated", "", g.span, fn=g.path,
               key="C10.guard|lookup|" + sub)

    # a declared-const identifier is marked const before it is registered in the scope (the scope stores a clone:
    # marking afterwards leaves the registered copy writable)
    REGISTER = ("compiler::ast::ident::Ident::link_force_no_inherit", "compiler::ast::ident::Ident::link", "compiler::ast::value::Value::associate_with_ident",
                "compiler::parser::AssocFileData::add_dependency", "compiler::ast::ident::Ident::link_from_pointed_type_with_lookup",
                "compiler::ast::ident::Ident::set_type_no_link")
    for sub in ("assignment_no_type", "assignment_type", "assignment_unpack"):
        g = need(F, "compiler::parser::Parser::" + sub)
        marks = g.calls_to("compiler::ast::ident::Ident::mark_const")
        regs = [c for c in g.calls() if c.matches(REGISTER[:4])]
        if not marks:
            rep.ob("C10.read-only", "%s marks a `const` declaration read-only" % sub, "violated", "no Ident::mark_const call", g.span, fn=g.path,
                   key="C10.read-only|mark|" + sub)
            continue
        late = [m for m in marks if any(m.bb in g.reachable(r.target) for r in regs if r.target is not None)]
        # and the marking is under the `is_const` parameter
        rep.ob("C10.read-only", "%s: a const declaration is marked read-only before the name is registered in the scope" % sub,
               "violated" if late or not regs else "ok",
               "Ident::mark_const is reachable after %s: the scope already holds a writable clone of the identifier" % (
                   sorted({mir.short(r.callee()) for r in regs if any(m.bb in g.reachable(r.target) for m in late)})) if late else "",
               (late[0].span if late else g.span), fn=g.path, key="C10.read-only|mark-before-register|" + sub)

    # reassignment: is_const flag from the root identifier to the test
    pr = need(F, "compiler::parser::Parser::reassignment")
    parse_calls = pr.calls_to("compiler::ast::reassignment::ReassignmentPath::parse")
    seeds = []
    for c in parse_calls:
        # (path, is_const) = parse(..)? : the bool component
        for bi, si, dst, rv, s in pr.assigns():
            pl = op_place(rv.get("use")) if "use" in rv else None
            if pl and pr.locals[dst["l"]] == "bool" and any(e[0] == "field" and e[1] == 1 for e in pl.get("p", [])):
                if ("call", c.bb) in rules.origins(pr, pl["l"], transparent={rules.TRY_BRANCH}):
                    seeds.append(dst["l"])
    if seeds:
        v, info = rules.guarded_by_bool(pr, rules.ok_return_blocks(pr), seeds, want=False)
    else:
        v, info = "violated", "the const flag returned by ReassignmentPath::parse is not tested"
    rep.ob("C10.guard", "re-assignment (path = v): rejected when the root of the path is const", v, str(info), pr.span, fn=pr.path, key="C10.guard|reassign")
    pp = need(F, "compiler::ast::reassignment::parse_path")
    cls = F.closures_of(pp)
    prim = [g for g in cls if g.calls_to(IS_CONST)]
    okflag = False
    detail = "no closure of parse_path calls Ident::is_const"
    if prim:
        g = prim[0]
        okflag = True
        detail = ""
        for bi, si, dst, rv, s in g.assigns():
            if "agg" in rv and rv["agg"]["k"] == "tuple" and len(rv["ops"]) == 3:
                pth = mir.op_place(rv["ops"][0])
                # the tuple built for an identifier root: first component is ReassignmentPath::Ident
                src = [d for d in rules.defs_of(g, op_local(rv["ops"][0])) if d[0] == "assign" and "agg" in d[4]] if op_local(rv["ops"][0]) is not None else []
                if any(d[4]["agg"].get("v") == "Ident" for d in src):
                    o = rules.origin_calls(g, op_local(rv["ops"][2]), transparent=set()) if op_local(rv["ops"][2]) is not None else []
                    if not (len(o) == 1 and o[0].matches(IS_CONST)):
                        okflag = False
                        detail = "the flag paired with ReassignmentPath::Ident is not Ident::is_const(root)"
    rep.ob("C10.guard", "re-assignment: the const flag of an identifier root is Ident::is_const(root)", "ok" if okflag else "violated", detail, pp.span,
           fn=pp.path, key="C10.guard|reassign-flag-source")
    # postfix steps never clear the flag; a field step on a module-typed object sets it
    tl = F.adt("compiler::ast::r#type::TypeLayout")
    mod_i = [i for i, v in enumerate(tl["variants"]) if v["name"] == "Module"]
    if len(mod_i) != 1:
        raise AnchorMissing("TypeLayout::Module variant")
    mod_i = str(mod_i[0])
    carried = True
    n_post = 0
    mod_step = None
    why = ""
    for g in cls:
        if g in prim:
            continue
        # locals holding the incoming flag: copies of field 2 of the unwrapped `lhs` tuple
        inflag = {}
        for bi, si, dst, rv, s in g.assigns():
            pl = op_place(rv.get("use")) if "use" in rv else None
            if pl and g.locals[dst["l"]] == "bool" and pl.get("p") and pl["p"][-1][0] == "field" and pl["p"][-1][1] == 2:
                inflag[dst["l"]] = True
        inflag = g.derived(list(inflag)) if inflag else {}
        false_edges = set()
        for bb, t_t, f_t, pol in rules.bool_switches(g, inflag):
            if pol is not None:
                false_edges.add((bb, f_t if pol else t_t))
        live_when_set = g.reachable(0, removed_edges=false_edges)
        for bi, si, dst, rv, s in g.assigns():
            if "agg" in rv and rv["agg"]["k"] == "tuple" and len(rv["ops"]) == 3 and g.locals[dst["l"]].count("bool"):
                src = [d for d in rules.defs_of(g, op_local(rv["ops"][0])) if d[0] == "assign" and "agg" in d[4]] if op_local(rv["ops"][0]) is not None else []
                kinds = {d[4]["agg"].get("v") for d in src}
                if not kinds & {"Index", "DotLookup"}:
                    continue
                n_post += 1
                fl = op_local(rv["ops"][2])
                if fl is None:
                    carried = False
                    why = "the flag of a postfix step is a constant"
                    continue
                # every definition of the outgoing flag that can execute while the incoming flag is set is that flag or `true`
                work, seen, defs = [fl], set(), []
                while work:
                    l = work.pop()
                    if l in seen:
                        continue
                    seen.add(l)
                    for d in rules.defs_of(g, l):
                        if d[0] == "assign" and "use" in d[4] and op_local(d[4]["use"]) is not None and not (op_place(d[4]["use"]) or {}).get("p"):
                            work.append(op_local(d[4]["use"]))
                        defs.append((l, d))
                for l, d in defs:
                    if l in inflag:
                        continue
                    if d[0] != "assign":
                        if d[1] in live_when_set:
                            carried = False
                            why = "the outgoing flag comes from a call while the incoming flag is set"
                        continue
                    rvd = d[4]
                    if "use" in rvd and "const" in rvd["use"]:
                        if rvd["use"]["const"].get("int") != "1" and d[1] in live_when_set:
                            carried = False
                            why = "bb%d clears the flag although the incoming flag may be set" % d[1]
                    elif "use" in rvd and op_local(rvd["use"]) is not None and not (op_place(rvd["use"]) or {}).get("p"):
                        pass
                    elif d[1] in live_when_set:
                        carried = False
                        why = "bb%d recomputes the flag although the incoming flag may be set" % d[1]
                if "DotLookup" in kinds:
                    # the object's type is tested for TypeLayout::Module and that edge sets the flag
                    mod_step = False
                    unstripped = []
                    for bb2, blk in enumerate(g.blocks):
                        t = blk["t"]
                        if t["k"] != "switch" or mod_i not in dict(t["targets"]):
                            continue
                        dl = op_local(t["discr"])
                        base = None
                        for s_ in blk["s"]:
                            if "d" in s_ and s_["d"]["l"] == dl and "discr" in s_["rv"]:
                                base = s_["rv"]["discr"]["l"]
                        if base is None or "TypeLayout" not in g.locals[base]:
                            continue
                        oc = rules.origin_calls(g, base, transparent=rules.TRANSPARENT | {rules.TRY_BRANCH,
                                "compiler::ast::r#type::TypeLayout::disregard_distractors", "compiler::ast::r#type::TypeLayout::get_type_recursively",
                                "compiler::ast::r#type::TypeLayout::assume_type_of_self", "compiler::VecErr::to_err_vec", "compiler::CompilationError::details", "compiler::CompilationError::details_lazy_message"})
                        if not any(c.matches("compiler::ast::reassignment::ReassignmentPath::for_type") or c.matches("IntoType>::for_type") for c in oc):
                            continue
                        # the type is looked at with its wrappers off: an alias captured by a function is CallbackVariable(Module), an annotated one an Alias
                        strict = rules.origin_calls(g, base, transparent=rules.TRANSPARENT | {rules.TRY_BRANCH, "compiler::ast::r#type::TypeLayout::assume_type_of_self",
                                "compiler::VecErr::to_err_vec", "compiler::CompilationError::details", "compiler::CompilationError::details_lazy_message"})
                        if not any(c.matches(("compiler::ast::r#type::TypeLayout::disregard_distractors", "compiler::ast::r#type::TypeLayout::get_type_recursively")) for c in strict):
                            unstripped.append("the object type is matched against TypeLayout::Module as written (no disregard_distractors): inside a function that "
                                              "captured the alias it is CallbackVariable(Module), and `cfg.limit = 99` is accepted")
                            continue
                        tgt = dict(t["targets"])[mod_i]
                        sets = [d for l, d in defs if d[0] == "assign" and d[1] == tgt and "use" in d[4] and "const" in d[4]["use"] and d[4]["use"]["const"].get("int") == "1"]
                        if sets:
                            mod_step = True
    rep.ob("C10.guard", "re-assignment: index / field steps never clear the const flag of the path walked so far", "ok" if carried and n_post >= 2 else "violated",
           "%d postfix steps found. %s" % (n_post, why), pp.span, fn=pp.path, key="C10.guard|reassign-flag-carried")
    mod_detail = "" if mod_step else "`n = m` followed by `n.export = v` rebinds a member the module exports"
    try:
        if not mod_step and unstripped:
            mod_detail = unstripped[0]
    except NameError:
        pass
    if not mod_step:
        # the test may sit in a helper predicate (`ty.is_module()`): then the helper is evaluated, not its spelling matched
        for g in [pp] + F.closures_of(pp):
            thr_ = rules.TRANSPARENT | {rules.TRY_BRANCH, "compiler::ast::r#type::TypeLayout::disregard_distractors", "compiler::ast::r#type::TypeLayout::get_type_recursively",
                                        "compiler::ast::r#type::TypeLayout::assume_type_of_self", "compiler::VecErr::to_err_vec", "compiler::CompilationError::details",
                                        "compiler::CompilationError::details_lazy_message"}

            def recv_ok(l, g=g, thr_=thr_):
                oc = rules.origin_calls(g, l, transparent=thr_)
                return any(c.matches("compiler::ast::reassignment::ReassignmentPath::for_type") or c.matches("IntoType>::for_type") for c in oc)

            def edge_ok(tgt, g=g):
                reach = g.reachable(tgt)
                return any("use" in rv and "const" in rv["use"] and rv["use"]["const"].get("int") == "1" and g.locals[dst["l"]].strip() == "bool" and bi in reach
                           for bi, si, dst, rv, s_ in g.assigns())
            r_ = _helper_module_test(F, g, None, recv_ok, edge_ok, flag_names=("is_const",))
            if r_ is not None:
                mod_step = r_[0]
                mod_detail = r_[1]
    rep.ob("C10.guard", "re-assignment: a field step taken on a module (through any alias of it) marks the path const",
           "ok" if mod_step else ("undecided" if mod_step is None else "violated"), mod_detail, pp.span, fn=pp.path, key="C10.guard|reassign-module-step")

    # compound assignment and ?=
    ft = [f for f in F.find("compiler::ast::math_expr::Expr::for_type")]
    if len(ft) != 1:
        raise AnchorMissing("Expr::for_type")
    ft = ft[0]
    ri = ft.calls_to("compiler::ast::math_expr::Expr::root_ident")
    isop, der_isop = rules.storing_operator_conditions(F, ft)
    gots = ft.calls_to("compiler::ast::r#type::TypeLayout::get_output_type")
    if not gots:
        raise AnchorMissing("get_output_type call in Expr::for_type")
    consts = [c for c in ft.calls_to(IS_CONST)]
    verdict = "violated"
    info = "no Ident::is_const test on the root of a compound-assignment target"
    if consts and isop:
        # under the assumption `is_op_assign() == true`, every path to get_output_type crosses an is_const == false edge
        der_op = der_isop
        removed = set()
        for bb, t_t, f_t, pol in rules.bool_switches(ft, der_op):
            if pol is not None:
                removed.add((bb, f_t if pol else t_t))
        # roots: is_const receivers derive from root_ident() or from the Ident payload of the left operand
        der_c = ft.derived([c.dst["l"] for c in consts])
        n = 0
        for bb, t_t, f_t, pol in rules.bool_switches(ft, der_c):
            if pol is not None:
                removed.add((bb, f_t if pol else t_t))    # remove the passing (false) edge... see below
                n += 1
        # removed now holds: op-assign==false edges and is_const==false (passing) edges; if get_output_type is still reachable for an
        # identifier-rooted target, some compound assignment avoids the check.  Identifier-rooted = root_ident() is Some.
        some_removed = set()
        for c in ri:
            sw = rules.find_discr_switch(ft, c.target, c.dst["l"])
            if sw is not None:
                t = ft.term(sw)
                some_t = dict(t["targets"]).get("1", t["otherwise"])
                for tg in set(x[1] for x in t["targets"]) | {t["otherwise"]}:
                    if tg != some_t:
                        some_removed.add((sw, tg))
        reach = ft.reachable(0, removed_edges=removed | some_removed)
        bad = [c.bb for c in gots if c.bb in reach]
        verdict = "ok" if not bad and n else "violated"
        info = {"is_const_tests": n, "root_ident_calls": len(ri), "unguarded get_output_type": bad}
    rep.ob("C10.guard", "compound assignment (x op= v, xs[i] op= v, o.f op= v): rejected when the root variable is const", verdict, str(info), ft.span,
           fn=ft.path, key="C10.guard|opassign")
    # `?=` takes the same test: the condition that enables it mentions Op::Unwrap
    opadt = F.adt("compiler::ast::math_expr::Op")
    ui = [i for i, v in enumerate(opadt["variants"]) if v["name"] == "Unwrap"][0]
    unwrap_tested = False
    for bi, blk in enumerate(ft.blocks):
        t = blk["t"]
        if t["k"] == "switch" and any(int(v) == ui for v, _ in t["targets"]):
            # only switches on the discriminant of an `Op`
            dl = op_local(t["discr"])
            is_op = False
            for s_ in blk["s"]:
                if "d" in s_ and s_["d"]["l"] == dl and "discr" in s_["rv"]:
                    base_ty = ft.locals[s_["rv"]["discr"]["l"]]
                    is_op = base_ty.lstrip("&").strip() == "compiler::ast::math_expr::Op"
            if not is_op:
                continue
            tgt = dict(t["targets"])[str(ui)]
            if any(c.bb in ft.reachable(tgt) for c in ri) and ri:
                # from the Unwrap edge the root test is reached before get_output_type
                edges = {(c.bb, c.target) for c in ri}
                if all(g.bb not in ft.reachable(tgt, removed_edges=edges) for g in gots):
                    unwrap_tested = True
    rep.ob("C10.guard", "`a ?= e`: the const test on the root of the target also covers ?=", "ok" if unwrap_tested else "violated", "", ft.span,
           fn=ft.path, key="C10.guard|unwrap")
    # compound assignment to a field of a module-typed object (an alias of an imported module)
    mod_op = False
    n_mod_sw = 0
    opreg = set()
    for c in isop:
        opreg |= ft.reachable(c.bb)
    dot_locals = set()
    for bi, si, dst, rv, s in ft.assigns():
        pl = op_place(rv.get("use")) if "use" in rv else (rv.get("ref") if "ref" in rv else None)
        if pl and any(e[0] == "downcast" and e[1] == "DotLookup" for e in pl.get("p", [])):
            dot_locals.add(dst["l"])
    for bb2, blk in enumerate(ft.blocks):
        t = blk["t"]
        if t["k"] != "switch" or mod_i not in dict(t["targets"]) or bb2 not in opreg:
            continue
        dl = op_local(t["discr"])
        base = None
        for s_ in blk["s"]:
            if "d" in s_ and s_["d"]["l"] == dl and "discr" in s_["rv"]:
                base = s_["rv"]["discr"]["l"]
        if base is None or "TypeLayout" not in ft.locals[base]:
            continue
        oc = rules.origin_calls(ft, base, transparent=rules.TRANSPARENT | {rules.TRY_BRANCH,
                "compiler::ast::r#type::TypeLayout::disregard_distractors", "compiler::ast::r#type::TypeLayout::get_type_recursively"})
        rec = [c for c in oc if c.matches("compiler::ast::math_expr::Expr::for_type")]
        # the typed expression is the object of a DotLookup target: its receiver comes out of a downcast to Expr::DotLookup
        if not any(c.args and op_local(c.args[0]) is not None and _back(ft, op_local(c.args[0])) & dot_locals for c in rec):
            continue
        strict = rules.origin_calls(ft, base, transparent=rules.TRANSPARENT | {rules.TRY_BRANCH})
        if not any(c.matches(("compiler::ast::r#type::TypeLayout::disregard_distractors", "compiler::ast::r#type::TypeLayout::get_type_recursively")) for c in strict):
            continue            # matched as written: a captured alias (CallbackVariable(Module)) is not seen
        n_mod_sw += 1
        tgt = dict(t["targets"])[mod_i]
        if all(g_.bb not in ft.reachable(tgt) for g_ in gots):
            mod_op = True
    op_detail = "%d tests of the object type against TypeLayout::Module under is_op_assign" % n_mod_sw
    if not mod_op:
        def recv_ok2(l):
            oc = rules.origin_calls(ft, l, transparent=rules.TRANSPARENT | {rules.TRY_BRANCH, "compiler::ast::r#type::TypeLayout::disregard_distractors",
                                                                            "compiler::ast::r#type::TypeLayout::get_type_recursively"})
            rec = [c for c in oc if c.matches("compiler::ast::math_expr::Expr::for_type")]
            return any(c.args and op_local(c.args[0]) is not None and _back(ft, op_local(c.args[0])) & dot_locals for c in rec)
        r_ = _helper_module_test(F, ft, opreg, recv_ok2, lambda tgt: all(g_.bb not in ft.reachable(tgt) for g_ in gots))
        if r_ is not None:
            mod_op, op_detail = r_
    rep.ob("C10.guard", "compound assignment / ?= to a field of a module (through any alias of it) is rejected", "ok" if mod_op else "violated",
           op_detail, ft.span, fn=ft.path, key="C10.guard|opassign-module-step")
    rt = F.fn("compiler::ast::math_expr::Expr::root_ident")
    if rt is not None:
        ea = F.adt("compiler::ast::math_expr::Expr")
        names = [v["name"] for v in ea["variants"]]
        covered = set()
        for blk in rt.blocks:
            t = blk["t"]
            if t["k"] == "switch" and len(t["targets"]) >= 2:
                covered |= {names[int(v)] for v, _ in t["targets"] if int(v) < len(names)}
        # every Expr variant that hands on (a view of) one operand without computing a new value: index, field, `get`, and `(x) or y`
        want = {"Value", "Index", "DotLookup", "UnaryUnwrap", "NilEval"}
        rep.ob("C10.guard", "root_ident follows identifiers, index steps, field steps, `get` and `or`", "ok" if want <= covered else "violated",
               "variants handled: %s" % sorted(covered), rt.span, fn=rt.path, key="C10.guard|root-ident-shape")
        # ... and follows them all the way down: from the arm of a step (index, field, `get`, `or`) every path to the return asks root_ident
        # about the operand the step was applied to (a helper that peels one step and then only looks for an identifier loses `a.b.c += 1`)
        selfcalls = {c.bb for c in rt.calls() if c.matches("compiler::ast::math_expr::Expr::root_ident")}
        rets = {i for i, blk in enumerate(rt.blocks) if blk["t"]["k"] == "return"}
        shallow = []
        n_arms = 0
        for bi, blk in enumerate(rt.blocks):
            t = blk["t"]
            if t["k"] != "switch" or len(t["targets"]) < 2:
                continue
            for v, tgt in t["targets"]:
                if int(v) < len(names) and names[int(v)] in want - {"Value"}:
                    n_arms += 1
                    if rt.reachable(tgt, removed_blocks=selfcalls) & rets:
                        shallow.append(names[int(v)])
        # `(c or d).x += 1` writes through c when it is present and through d otherwise: the root that matters is whichever of the two is const,
        # so the `or` arm looks at constness (Ident::is_const) - "the primary's root, else the fallback's" hides a const fallback behind a variable
        rbodies = [rt] + F.closures_of(rt)
        asks = sum(1 for b in rbodies for c in b.calls() if c.matches(IS_CONST))
        rep.ob("C10.guard", "root_ident: the `or` step answers with the root that is const, whichever side it is on", "ok" if asks else "violated",
               "" if asks else "root_ident never asks Ident::is_const: with `maybe: Box? = nil` and `const LIMITS = Box(10)`, `(maybe or LIMITS).x += 5` is rooted at "
               "`maybe` for the const test and writes LIMITS", rt.span, fn=rt.path, key="C10.guard|root-ident-or-const")
        if n_arms:
            rep.ob("C10.guard", "root_ident asks itself about the operand of every step (a path of any length is followed to its root)",
                   "violated" if shallow else "ok",
                   ("the arm of %s reaches the return without a recursive call: a const root two steps away (`c.a.b += 1`, `c[0][1] = 2`) is not found" % sorted(set(shallow)))
                   if shallow else "%d step arms, each passing through a recursive call" % n_arms, rt.span, fn=rt.path, key="C10.guard|root-ident-depth")
    else:
        rep.ob("C10.guard", "root_ident helper", "undecided", "Expr::root_ident not found (the const test may be written inline)", ft.span, fn=ft.path)
    storing_operators_take_the_const_test(F, rep)

    # named loop counter
    nl = need(F, "compiler::parser::Parser::number_loop")
    links = nl.calls_to("compiler::ast::ident::Ident::link_force_no_inherit")
    v, info = rules.conditional_guard(nl, is_ident_opt, [IS_CONST], False, [c.bb for c in links])
    rep.ob("C10.guard", "named loop counter: an existing const name is rejected", v, str(info), nl.span, fn=nl.path, key="C10.guard|loop-counter")

    # import
    for fn_name, label in (("import_standard", "import m"), ("import_names", "import a, b from m")):
        g = need(F, "compiler::parser::Parser::" + fn_name)
        mapped = g.calls_to("compiler::parser::AssocFileData::has_name_been_mapped")
        oks = rules.ok_return_blocks(g)
        if not mapped:
            v, info = "violated", "no has_name_been_mapped test"
        else:
            v, info = rules.guarded_by_bool(g, oks, [c.dst["l"] for c in mapped], want=False)
            if fn_name == "import_names" and v == "violated":
                # the test is per imported name inside the loop: require that every push of an imported name is guarded
                pushes = [c for c in g.calls_to("alloc::vec::Vec::push")]
                v, info = rules.guarded_by_bool(g, [c.bb for c in pushes], [c.dst["l"] for c in mapped], want=False) if pushes else (v, info)
        rep.ob("C10.guard", "%s: a name already in use is rejected" % label, v, str(info), g.span, fn=g.path, key="C10.guard|" + fn_name)

    # class
    pc = need(F, "compiler::parser::Parser::class")
    look = pc.calls_to("compiler::parser::AssocFileData::get_ident_from_name_local")
    v, info = ("violated", "no name-in-scope test") if not look else rules.conditional_guard(
        pc, lambda ty: "Option<" in ty and "ident::Ident" in ty and ty.startswith("core::option::Option<"), [IS_CONST], False, rules.ok_return_blocks(pc))
    if look and v != "ok":
        # the class form rejects *any* existing name: the Some edge of the lookup must not reach Ok
        ok = True
        for c in look:
            sw = rules.find_discr_switch(pc, c.target, c.dst["l"])
            if sw is None:
                ok = False
                continue
            t = pc.term(sw)
            some_t = dict(t["targets"]).get("1", t["otherwise"])
            none_edges = {(sw, tg) for tg in set(x[1] for x in t["targets"]) | {t["otherwise"]} if tg != some_t}
            if any(b in pc.reachable(some_t, removed_edges=none_edges) for b in rules.ok_return_blocks(pc)):
                ok = False
        v, info = ("ok" if ok else "violated"), "an existing name in the local scope leads to Err"
    rep.ob("C10.guard", "class C: a name already in scope is rejected", v, str(info), pc.span, fn=pc.path, key="C10.guard|class")

    # type alias of a class: registers the alias as the constructor's name
    ta = F.fn("compiler::ast::r#type::<impl compiler::parser::Parser>::type_alias")
    if ta is None:
        cands = [g for g in F.crates["compiler"].fns if g.path.endswith("::type_alias") and "impl compiler::parser::Parser" in g.path]
        ta = cands[0] if len(cands) == 1 else None
    if ta is None:
        raise AnchorMissing("Parser::type_alias")
    regs = ta.calls_to("compiler::ast::ident::Ident::link_force_no_inherit") + ta.calls_to("compiler::parser::AssocFileData::add_dependency")
    if not regs:
        rep.ob("C10.guard", "type T C: registers no variable", "ok", "", ta.span, fn=ta.path, key="C10.guard|type_alias")
    else:
        mapped = ta.calls_to("compiler::parser::AssocFileData::has_name_been_mapped") + ta.calls_to("compiler::parser::AssocFileData::get_ident_from_name_local")
        if not mapped:
            v, info = "violated", "the alias of a class is registered as a variable without a test for an existing name: `const x = 5; type x A; x = A()` rebinds x"
        else:
            bools = [c.dst["l"] for c in mapped if ta.locals[c.dst["l"]] == "bool"]
            v, info = rules.guarded_by_bool(ta, [c.bb for c in regs], bools, want=False) if bools else ("undecided", "lookup result is not a bool")
        rep.ob("C10.guard", "type T C (alias of a class, also a constructor name): a name already in use is rejected", v, str(info), regs[0].span, fn=ta.path,
               key="C10.guard|type_alias")

    # ---- 3. read-only creation ---------------------------------------------------------------------------------
    def new_consts(g):
        out = []
        for c in g.calls_to("compiler::ast::ident::Ident::new"):
            k = op_const(c.args[2]) if len(c.args) > 2 else None
            out.append((c, k.get("int") if k else None))
        return out
    for path, label, key in (("compiler::parser::Parser::import_standard", "the module name bound by `import m` is created const", "import-standard"),
                             ("compiler::ast::r#type::ModuleType::from_node", "class names in a module's type are created const", "module-class")):
        g = need(F, path)
        ns = new_consts(g)
        rep.ob("C10.read-only", label, "ok" if ns and all(v == "1" for _, v in ns) else "violated", "Ident::new(.., is_const) arguments: %s" % [v for _, v in ns],
               g.span, fn=g.path, key="C10.read-only|" + key)
    marks = pc.calls_to("compiler::ast::ident::Ident::mark_const")
    oks = rules.ok_return_blocks(pc)
    dom = bool(marks) and all(rules.call_dominates(pc, marks, b) for b in oks)
    rep.ob("C10.read-only", "a class name is marked const before the class is accepted", "ok" if dom else "violated", "", pc.span, fn=pc.path,
           key="C10.read-only|class")
    # the alias of a class is a second name of the class (its constructor is called through it): read-only like the class name
    ta_ = F.fn("compiler::parser::Parser::type_alias")
    if ta_ is not None:
        regs_ = ta_.calls_to("compiler::ast::ident::Ident::link_force_no_inherit") + ta_.calls_to("compiler::parser::AssocFileData::add_dependency")
        marks_ = ta_.calls_to("compiler::ast::ident::Ident::mark_const")
        okm = bool(regs_) and bool(marks_) and all(rules.call_dominates(ta_, marks_, r.bb) for r in regs_)
        rep.ob("C10.read-only", "the name a `type` alias of a class registers as a variable is marked const first", "ok" if (okm or not regs_) else "violated",
               "" if (okm or not regs_) else "`type Kitty Cat` registers Kitty without Ident::mark_const: `Kitty = Cat()` rebinds the class's other name",
               (regs_[0].span if regs_ else ta_.span), fn=ta_.path, key="C10.read-only|type-alias")
    imn = need(F, "compiler::parser::Parser::import_names")
    marks = imn.calls_to("compiler::ast::ident::Ident::mark_const")
    rep.ob("C10.read-only", "names bound by `import a, b from m` are created const", "ok" if marks else "violated",
           "the imported identifier is a clone of the exporter's identifier (const only if exported const); it is never marked const, so "
           "`import a from m` followed by `a = 5` is accepted", imn.span, fn=imn.path, key="C10.read-only|import-names")

    # ---- 4. the flag travels with the identifier -----------------------------------------------------------------
    # Every construction of an Ident (aggregate or Ident::new) inside a function that receives an Ident, or that takes the new
    # identifier's name from an existing one, must take read_only from that same identifier; and the only writes to the
    # field are `= true` (mark_const).  A copy that forgets the flag turns a const into an assignable name in whichever check reads the copy.
    IDENT = "compiler::ast::ident::Ident"
    n_sites = 0
    n_derived = 0
    for f in F.crates["compiler"].fns:
        if f.path == "compiler::ast::ident::Ident::new":
            continue
        ident_params = [i + 1 for i, t in enumerate(f.d.get("inputs", [])) if t.replace("&mut ", "").replace("&", "").strip().startswith(IDENT)]
        sites = []
        for bi, si, dst, rv, st in f.assigns():
            if "agg" in rv and rv["agg"].get("adt") == IDENT:
                a = F.adt(IDENT)
                names = [x["name"] for x in a["variants"][0]["fields"]]
                sites.append((rv["ops"][names.index("name")], rv["ops"][names.index("read_only")], st.get("us") or st.get("sp")))
            if dst.get("p") and any(e[0] == "field" and len(e) > 2 and e[2] == "read_only" for e in dst["p"]):
                k = op_const(rv["use"]) if "use" in rv else None
                okw = bool(k) and k.get("int") == "1"
                rep.ob("C10.flag-carried", "the only write to Ident.read_only sets it (in %s)" % mir.short(f.path), "ok" if okw else "violated",
                       "", st.get("us") or st.get("sp"), fn=f.path, key="C10.flag-carried|write|%s" % mir.short(f.path))
        for c in f.calls_to("compiler::ast::ident::Ident::new"):
            if len(c.args) == 3:
                sites.append((c.args[0], c.args[2], c.span))
        for i, (name_op, ro_op, where) in enumerate(sites):
            n_sites += 1
            src_params = set()
            nl = op_local(name_op)
            if nl is not None:
                for o, fields in rules.trace_paths(f, nl, transparent=tuple(rules.TRANSPARENT) + ("compiler::ast::ident::Ident::name", "alloc::borrow::ToOwned::to_owned",
                                                                                                    "alloc::string::ToString::to_string", "compiler::ast::ident::Ident::boxed_name")):
                    if o[0] == "arg" and o[1] in ident_params:
                        src_params.add(o[1])
            if not src_params and not ident_params:
                continue
            n_derived += 1
            rl = op_local(ro_op)
            tp = rules.trace_paths(f, rl, transparent=tuple(rules.TRANSPARENT) + ("compiler::ast::ident::Ident::is_const",)) if rl is not None else set()
            want = src_params or set(ident_params)
            okc = bool(tp) and all(o[0] == "arg" and o[1] in want for o, _ in tp)
            rep.ob("C10.flag-carried", "%s builds an identifier from another one and keeps its read-only flag" % mir.short(f.path), "ok" if okc else "violated",
                   "read_only operand: %s" % (op_const(ro_op) or sorted(tp, key=str)), where, fn=f.path, key="C10.flag-carried|%s|#%d" % (mir.short(f.path), i))
    rep.floor("C10.Ident construction sites", n_sites, 7)
    rep.floor("C10.Ident constructions derived from another Ident", n_derived, 2)
    scope_discipline(F, rep)
    scope_record(F, rep)
    const_declaration_over_existing_name(F, rep)
    existence_is_asked_function_wide(F, rep)
    modify_target_is_not_const(F, rep)
    # `constant = 5` declares a variable named constant, not a const named ant
    from props import _keywords
    rep.floor("C10.keyword-boundary flag keywords judged", _keywords.run(F, rep, "C10.keyword-boundary", only={"assignment_flag", "class_flag", "type_export"}), 3)
    scope_walk(F, rep)
    const_flag(F, rep)
    member_names_are_not_variables(F, rep)


def scope_record(F, rep):
    """The const flag lives in the scope's record of a name (an Ident, hashed by its name).  Whatever a declaration decides about the name -
    a new type, `const` - reaches later checks only if Scope::add_dependency writes the record it is given: every path from its entry to a
    return passes the set's `replace` / `insert` of (a clone of) the parameter.  A path that returns early keeps the old record, old
    read_only flag included."""
    f = F.fn("compiler::scope::Scope::add_dependency")
    if f is None:
        raise AnchorMissing("Scope::add_dependency")
    writes = [c for c in f.calls() if mir.short(c.callee()).split("::")[-1] in ("replace", "insert") and ("HashSet" in c.callee() or "HashMap" in c.callee() or "BTree" in c.callee())]
    good = []
    for c in writes:
        org = set()
        for a in c.args[1:]:
            l = op_local(a)
            if l is not None:
                org |= {o for (o, fs) in (rules.trace_paths(f, l, transparent=rules.TRANSPARENT | {"core::clone::Clone::clone"}) or [])}
        if ("arg", 2) in org:
            good.append(c)
    rets = [bi for bi, blk in enumerate(f.blocks) if blk["t"]["k"] == "return"]
    ok = bool(good) and all(rules.call_dominates(f, good, b) for b in rets)
    rep.ob("C10.flag-carried", "Scope::add_dependency writes the record it is given on every path (no early return keeps the old one)",
           "ok" if ok else "violated",
           "" if ok else ("a return is reachable without the set's replace/insert of the given identifier: `x = 5` then `const x = 20` (same type) keeps the "
                          "non-const record of x and every later write to the constant is accepted" if good else "no replace/insert of the parameter found"),
           f.span, fn=f.path, key="C10.flag-carried|scope-record")


def scope_discipline(F, rep):
    """Function parameters become names of the *function's* scope only.  Parser::function_parameters is also used to read a signature ahead of
    time (class pre-walk, bodiless functions) with add_to_scope_dependencies = false: on those paths it must not register the parameters in
    the current (class / module) scope, or a parameter of one method shadows a module constant of the same name in its sibling methods --
    whose const check then looks at the parameter.  (a) every registration in function_parameters is on the true edge of a test of that flag;
    (b) every caller that passes `true` has pushed the function scope first."""
    fp = F.fn("compiler::parser::Parser::function_parameters")
    if fp is None:
        raise AnchorMissing("Parser::function_parameters")
    REG = ("compiler::ast::ident::Ident::link_force_no_inherit", "compiler::parser::AssocFileData::add_dependency",
           "compiler::ast::ident::Ident::link_from_pointed_type_with_lookup")
    regs = [c for c in fp.calls() if c.matches(REG)]
    rep.floor("C10.scope registrations in function_parameters", len(regs), 2)
    flag = 2   # add_to_scope_dependencies
    der = fp.derived([flag])
    sws = [x for x in rules.bool_switches(fp, der) if x[3] is not None]
    removed = {(bb, t_t if pol else f_t) for bb, t_t, f_t, pol in sws}
    reach = fp.reachable(0, removed_edges=removed) if sws else set(range(len(fp.blocks)))
    bad = [c for c in regs if c.bb in reach]
    rep.ob("C10.scope", "function_parameters registers parameter names in the current scope only when asked to (add_to_scope_dependencies)",
           "violated" if bad or not sws else "ok",
           "registration reachable with the flag false: %s" % [(mir.short(c.callee()), c.span) for c in bad][:3] if bad else "", fp.span, fn=fp.path,
           key="C10.scope|function_parameters|registration-guarded")
    n = 0
    for f, c in F.callers_of("compiler::parser::Parser::function_parameters"):
        k = op_const(c.args[1]) if len(c.args) > 1 else None
        if k is None or k.get("int") != "1":
            continue
        n += 1
        pushes = f.calls_to("compiler::parser::AssocFileData::push_function")
        ok = bool(pushes) and rules.call_dominates(f, pushes, c.bb)
        rep.ob("C10.scope", "%s registers the parameters after pushing the function's own scope" % mir.short(f.path), "ok" if ok else "violated", "", c.span,
               fn=f.path, key="C10.scope|%s|push-before-register" % mir.short(f.path))
    rep.floor("C10.callers registering parameters", n, 3)


BLOCK_SCOPES = ("IfBlock", "ElseBlock", "WhileLoop", "NumberLoop")
SCOPE_WALKS = ("compiler::parser::AssocFileData::has_name_been_mapped_in_function",)


def _scope_pred_table(F, pred_fn):
    """value of a `fn(&Scope) -> bool` on each ScopeType variant (finite domain; the other fields of the scope stay opaque)"""
    import absint
    from absint import Interp, Variant, Opaque, Int
    adt = F.adt("compiler::scope::ScopeType")
    sc = F.adt("compiler::scope::Scope")
    if adt is None or sc is None:
        raise AnchorMissing("compiler::scope::ScopeType / Scope")
    names = [f["name"] for f in sc["variants"][0]["fields"]]
    if "ty" not in names:
        raise AnchorMissing("Scope.ty")
    table = {}
    for vi, v in enumerate(adt["variants"]):
        tyv = Variant("compiler::scope::ScopeType", vi, v["name"], [Opaque("payload%d" % i) for i in range(len(v["fields"]))])
        scope = Variant("compiler::scope::Scope", 0, "Scope", [tyv if n == "ty" else Opaque(n) for n in names])
        it = Interp(F, max_depth=4, max_paths=64)
        try:
            outs = it.run(pred_fn, [scope])
        except (ValueError, KeyError):
            table[v["name"]] = None
            continue
        vals = set()
        for o in outs:
            vals.add(bool(o.value.v) if (o.kind == "return" and isinstance(o.value, Int)) else None)
        table[v["name"]] = vals.pop() if (len(vals) == 1 and not it.exhausted) else None
    return table


def scope_walk(F, rep):
    """`did this name exist before` is answered by walking the scope stack outwards.  A block (if / else / while / from) owns no names of its
    own frame, so the walk may stop early only at scopes that do: a predicate that ends the walk must be false on every block scope kind, or a
    constant declared outside the block is taken for undeclared and `NAME = v` inside the block becomes a fresh declaration."""
    n_exits = 0
    for path in SCOPE_WALKS:
        w = F.fn(path)
        if w is None:
            raise AnchorMissing(path)
        bodies = [w] + F.closures_of(w)
        heads = [c for c in w.calls() if c.callee().endswith("Iterator>::next") and "ScopeIter" in c.callee()]
        combin = [c for c in w.calls() if "ScopeIter" in c.callee() or (c.args and op_local(c.args[0]) is not None and "ScopeIter" in w.locals[op_local(c.args[0])])]
        if not heads and not combin:
            raise AnchorMissing(path + ": no walk over ScopeIter")
        exits = []     # (body, switch bb, exit value of predicate | None, predicate call | None)
        for g in bodies:
            g_heads = [c.bb for c in g.calls() if c.callee().endswith("Iterator>::next") and "ScopeIter" in c.callee()]
            next_dsts = [c.dst["l"] for c in g.calls() if c.callee().endswith("Iterator>::next") and "ScopeIter" in c.callee()]
            found = [c.dst["l"] for c in g.calls() if c.matches("compiler::scope::Scope::contains")]
            der_skip = g.derived(next_dsts, through_call=None)
            der_found = g.derived(found, through_call=lambda c, idx: True)
            preds = [c for c in g.calls() if c.callee().startswith("compiler::scope::Scope::") and not c.matches("compiler::scope::Scope::contains")
                     and c.args and op_local(c.args[0]) is not None and g.locals[c.dst["l"]] == "bool"]
            in_loop = set()
            if g is w and g_heads:
                for h in g_heads:
                    r = g.reachable(h)
                    in_loop |= {b for b in r if h in g.reachable(b)}
            else:
                in_loop = set(range(len(g.blocks))) if g is not w else set()
            for bi in sorted(in_loop):
                t = g.blocks[bi]["t"]
                if t["k"] != "switch":
                    continue
                dl = op_local(t["discr"])
                succ = [tg for _, tg in t["targets"]] + [t["otherwise"]]
                if g is w:
                    leaving = [s for s in succ if not any(h in g.reachable(s) for h in g_heads)
                               and g.blocks[s]["t"]["k"] != "unreachable"]
                    if not leaving or dl in der_skip:
                        continue
                else:
                    leaving = succ
                if dl in der_found and not any(dl in g.derived([p.dst["l"]]) for p in preds):
                    continue      # leaves because the name was found
                pc = None
                pol = None
                for p_ in preds:
                    d = g.derived([p_.dst["l"]])
                    if dl in d:
                        pc, pol = p_, d[dl]
                if g is not w and pc is None:
                    continue      # closures: only scope predicates are of interest
                if pc is None or pol is None or t.get("dty") != "bool" or g is not w:
                    exits.append((g, bi, None, pc))
                    continue
                f_t = next((tg for v, tg in t["targets"] if v == "0"), None)
                for s in leaving:
                    sw_val = (s != f_t)
                    exits.append((g, bi, sw_val if pol else (not sw_val), pc))
        n_exits += len(exits)
        if not exits:
            rep.ob("C10.scope-walk", "%s looks through every enclosing scope (no early exit other than `found`)" % mir.short(path), "ok", "", w.span, fn=w.path,
                   key="C10.scope-walk|%s" % mir.short(path))
            continue
        for g, bi, val, pc in exits:
            if pc is None or val is None:
                rep.ob("C10.scope-walk", "%s: the walk is cut short by a test that is not a call of a Scope predicate" % mir.short(path), "undecided",
                       "switch in bb%d of %s" % (bi, mir.short(g.path)), g.span, fn=g.path, key="C10.scope-walk|%s|bb-test" % mir.short(path))
                continue
            pf = F.fn(pc.callee())
            tab = _scope_pred_table(F, pf) if pf is not None else {}
            stops = sorted(k for k, v in tab.items() if v == val)
            unknown = sorted(k for k in BLOCK_SCOPES if tab.get(k) is None)
            bad = [k for k in BLOCK_SCOPES if tab.get(k) == val]
            st = "violated" if bad else ("undecided" if unknown else "ok")
            rep.ob("C10.scope-walk", "%s stops looking outwards only at scopes that own their names, never at a block (%s)" % (mir.short(path), ", ".join(BLOCK_SCOPES)), st,
                   "walk ends when %s is %s, i.e. at scope kinds %s%s" % (mir.short(pc.callee()), str(val).lower(), stops,
                                                                            ("; stops at block scope(s) %s: a name declared outside that block is not seen" % bad) if bad else ""),
                   pc.span, fn=w.path, key="C10.scope-walk|%s|%s" % (mir.short(path), mir.short(pc.callee())))
    rep.floor("C10.scope-walk early exits judged", n_exits, 1)


def const_flag(F, rep):
    """A declaration is marked const exactly when its flags say `const`.  The `is_const` value Parser::assignment hands to the three assignment
    builders (which call Ident::mark_const on it) is computed from the parsed flags; that piece of Parser::assignment is evaluated abstractly for
    every flag word 0..7 and for `no flags`, and compared with the `const` bit (read from AssignmentFlag::constant()), on the combinations
    AssignmentFlag::validate lets through."""
    import absint
    from absint import Interp, Variant, Opaque, Int, some, NONE
    pa = None
    for f in F.crates["compiler"].fns:
        if f.path.endswith("assignment::<impl compiler::parser::Parser>::assignment"):
            pa = f
    if pa is None:
        raise AnchorMissing("Parser::assignment")
    AF = "compiler::ast::assignment::AssignmentFlag"
    builders = [c for c in pa.calls() if c.callee().endswith(("Parser>::assignment_no_type", "Parser>::assignment_type", "Parser>::assignment_unpack"))]
    rep.floor("C10.const-flag assignment builders called by Parser::assignment", len(builders), 3)
    locs = {op_local(c.args[1]) for c in builders if len(c.args) > 1}
    # the bool handed over may be a copy of the named local
    roots = set()
    for l in locs:
        cur = l
        for _ in range(4):
            src = [op_local(rv["use"]) for bb_, si, d, rv, _s in pa.assigns() if d.get("l") == cur and not d.get("p") and "use" in rv and op_local(rv["use"]) is not None]
            if len(src) == 1:
                cur = src[0]
            else:
                break
        roots.add(cur)
    flag_locals = [l for l, ty in enumerate(pa.locals) if ty.replace(" ", "") == "core::option::Option<%s>" % AF and pa.names.get(l)]
    if len(roots) != 1 or not flag_locals:
        rep.ob("C10.const-flag", "Parser::assignment computes one is_const value from the parsed flags", "undecided", "is_const locals %s, flags locals %s" % (sorted(roots), flag_locals),
               pa.span, fn=pa.path, key="C10.const-flag|shape")
        return
    cl = roots.pop()
    fl = flag_locals[0]
    # where the computation starts: the first block that borrows `flags` on the way to is_const
    starts = sorted(bi for bi, si, d, rv, _s in pa.assigns() if "ref" in rv and rv["ref"].get("l") == fl and not rv["ref"].get("p"))
    defs = [c.bb for c in pa.calls() if c.dst and c.dst.get("l") == cl] + [bi for bi, si, d, rv, _s in pa.assigns() if d.get("l") == cl]
    starts = [b for b in starts if any(db in pa.reachable(b) for db in defs)]
    if not starts or not defs:
        rep.ob("C10.const-flag", "Parser::assignment computes is_const from the parsed flags", "undecided", "no borrow of `flags` reaches is_const", pa.span, fn=pa.path,
               key="C10.const-flag|shape")
        return
    doms = pa.dominators()
    start = min(starts, key=lambda b: len(doms.get(b, ())))
    # the const bit and the admissible words
    def eval_fn(path, args):
        g = F.fn(path)
        if g is None:
            raise AnchorMissing(path)
        it = Interp(F, max_depth=6, max_paths=64)
        return it.run(g, args), it.exhausted
    outs, ex = eval_fn("compiler::ast::assignment::AssignmentFlag::constant", [])
    bit = None
    for o in outs:
        if o.kind == "return" and isinstance(o.value, Variant) and o.value.fields and isinstance(o.value.fields[0], Int):
            bit = o.value.fields[0].v
    if bit is None:
        rep.ob("C10.const-flag", "the `const` bit of AssignmentFlag", "undecided", "AssignmentFlag::constant() not read", pa.span, fn=pa.path, key="C10.const-flag|bit")
        return

    def flagv(k):
        return Variant(AF, 0, "AssignmentFlag", [Int(k, "u8")])
    valid = []
    for k in range(8):
        outs, ex = eval_fn("compiler::ast::assignment::AssignmentFlag::validate", [flagv(k)])
        kinds = {o.value.name if (o.kind == "return" and isinstance(o.value, Variant)) else "?" for o in outs}
        if kinds == {"Ok"}:
            valid.append(k)
    bad, undec, rows = [], [], []
    for k in [None] + list(range(8)):
        val = NONE if k is None else some(flagv(k))

        def stop(fn_, bb, p, _cl=cl):
            fr = p.frames.get(p.stack[-1][0], {})
            if fn_ is pa and _cl in fr and isinstance(fr[_cl], Int):
                return fr[_cl]
            return None
        models = dict(absint.DEFAULT_MODELS)

        def unwrap_or(it_, p_, fid_, fn_, t_, args):
            a = args[0]
            if isinstance(a, Variant) and a.adt == "core::option::Option":
                return a.fields[0] if a.name == "Some" else args[1]
            return NotImplemented
        models["core::option::Option::unwrap_or"] = unwrap_or
        models["core::option::Option::unwrap_or_default"] = lambda it_, p_, fid_, fn_, t_, args: (
            (args[0].fields[0] if args[0].name == "Some" else absint.FALSE) if isinstance(args[0], Variant) and args[0].adt == "core::option::Option" else NotImplemented)
        it = Interp(F, models=models, max_depth=8, max_paths=128, stop_at=stop)
        outs = it.run(pa, [Opaque("input")], init_locals={fl: val}, start_bb=start)
        got = {bool(o.value.v) if (o.kind == "stop" and isinstance(o.value, Int)) else None for o in outs}
        want = (k is not None) and bool(k & bit)
        rows.append("%s->%s" % ("none" if k is None else bin(k), sorted(got, key=str)))
        if got == {want}:
            continue
        if None in got or not got or it.exhausted:
            undec.append("flags %s: %s" % ("none" if k is None else bin(k), sorted(got, key=str)))
        elif k is None or k in valid:
            bad.append("flags %s (%s): is_const is %s" % ("none" if k is None else bin(k), "const bit set" if want else "no const bit", sorted(got)))
    rep.ob("C10.const-flag", "a declaration is marked const exactly when its flags contain `const` (flag words 0..7 and none; admissible: %s)" % [bin(v) for v in valid],
           "violated" if bad else ("undecided" if undec else "ok"), "; ".join(bad or undec) or "const bit %s; %s" % (bin(bit), " ".join(rows)), pa.span, fn=pa.path,
           key="C10.const-flag|is_const")
    rep.floor("C10.const-flag admissible flag words", len(valid), 4)


def member_names_are_not_variables(F, rep):
    """Inside a method a bare name never denotes a member of the class (members are reached through `self`; at run time the name resolves to a
    local, a capture or a module-level variable).  The compile-time lookup that the const checks consult must therefore not let a *class* scope
    answer for a name once the walk has crossed a function boundary -- or `count += 1` in a method of a class with a member `count` is checked
    against the member and, at run time, rewrites the module constant `count`.  The lookup is evaluated on scripted scope stacks."""
    import absint
    import jumps
    from absint import Interp, Variant, Opaque, Int, some, NONE
    lk = F.fn("compiler::parser::AssocFileData::get_dependency_flags_from_name_and_scopes_plus_skip")
    if lk is None:
        raise AnchorMissing("AssocFileData::get_dependency_flags_from_name_and_scopes_plus_skip")
    sc = F.adt("compiler::scope::Scope")
    st = F.adt("compiler::scope::ScopeType")
    tn = [v["name"] for v in st["variants"]]

    def scope(kind, has):
        vi = tn.index(kind)
        ty = Variant("compiler::scope::ScopeType", vi, kind, [Opaque("p%d" % i) for i in range(len(st["variants"][vi]["fields"]))])
        return Variant("compiler::scope::Scope", 0, "Scope", [ty if f["name"] == "ty" else (Opaque("vars:%s:%s" % (kind, "yes" if has else "no")) if f["name"] == "variables" else Opaque(f["name"]))
                                                              for f in sc["variants"][0]["fields"]])

    def contains(it, p, fid, fn, t, args):
        s = jumps.deref_all(it, p, args[0])
        if isinstance(s, Variant) and s.adt == "compiler::scope::Scope":
            for f_ in s.fields:
                if isinstance(f_, Opaque) and f_.tag.startswith("vars:"):
                    _, kind, has = f_.tag.split(":")
                    return some(Opaque("ident-of:" + kind)) if has == "yes" else NONE
        return NotImplemented

    def filter_map(it, p, fid, fn, t, args):
        cl = args[1]
        if not isinstance(cl, absint.Closure):
            return NotImplemented
        g = it.lookup_fn(cl.defn)
        if g is None:
            return NotImplemented
        v = args[0]

        def wrap(r):
            if isinstance(r, Variant) and r.adt == "core::option::Option":
                return absint.ok(r.fields[0]) if r.name == "Some" else absint.err(v)
            return Opaque("filter_map")
        return ("enter", g, [cl, v], wrap)
    cases = [
        ("a method body, member and module variable of the same name", [("Function", False), ("Class", True), ("File", True)], "File"),
        ("a block in a method body", [("IfBlock", False), ("Function", False), ("Class", True), ("File", True)], "File"),
        ("a local of the method", [("Function", True), ("Class", True), ("File", True)], "Function"),
        ("a closure in a method", [("Function", False), ("Function", False), ("Class", True), ("File", True)], "File"),
    ]
    n = 0
    for label, stack, want in cases:
        script = [(Int(k, "usize"), scope(kind, has)) for k, (kind, has) in enumerate(stack)]
        models = dict(absint.DEFAULT_MODELS)
        models.update({
            "core::iter::traits::iterator::Iterator::enumerate": jumps._enumerate,
            "core::iter::traits::iterator::Iterator::next": jumps._next,
            "core::iter::traits::collect::IntoIterator::into_iter": lambda it, p, fid, fn, t, args: (
                jumps.deref_all(it, p, args[0]) if isinstance(jumps.deref_all(it, p, args[0]), jumps.SIter) else NotImplemented),
            "compiler::scope::Scope::contains": contains,
            "core::cell::Ref::filter_map": filter_map,
            "core::cell::Ref::clone": absint._ident,
        })
        it = Interp(F, models=models, max_depth=6, max_paths=128, loop_bound=10)
        outs = it.run(lk, [Opaque("self"), Opaque("name"), jumps.SIter("into", None, script), Int(0, "usize")])
        ans = set()
        for o in outs:
            v = o.value
            if o.kind == "return" and isinstance(v, Variant) and v.adt == "core::option::Option":
                if v.name == "Some":
                    first = v.fields[0].fields[0] if isinstance(v.fields[0], absint.Tup) else v.fields[0]
                    ans.add(first.tag.split(":")[-1] if isinstance(first, Opaque) and first.tag.startswith("ident-of:") else "?")
                else:
                    ans.add("none")
            else:
                ans.add("?")
        n += 1
        st_ = "ok" if ans == {want} else ("undecided" if ("?" in ans or it.exhausted or not ans) else "violated")
        rep.ob("C10.scope", "name lookup from %s resolves to the %s scope's variable" % (label, want), st_,
               "scopes (innermost first) %s: answered by %s" % ([k + ("*" if h else "") for k, h in stack], sorted(ans)) +
               ("; a class member answers for a bare name inside a method: the const check looks at the member while the program writes the module variable" if (st_ == "violated" and "Class" in ans) else ""),
               lk.span, fn=lk.path, key="C10.scope|member-names|%s" % label.replace(" ", "-"))
    rep.floor("C10.scope member-name lookups evaluated", n, 4)



def const_declaration_over_existing_name(F, rep, rule="C10.guard"):
    """`const x = 10` where the function already has a (mutable) `x` would freeze the existing variable in place: functions created earlier
    that captured it (`modify x = ..`) keep writing it, so the constant does not keep showing its initializer.  Parser::assignment therefore
    tests the constness of the declaration it has just built against the existing name: (1) a call on the new Assignment that reads
    Ident::is_const is reached when the statement is NOT a `modify` (the name-existed case of plain declarations), (2) from its failing edge
    no successful return is reachable."""
    pa = F.fn("compiler::ast::assignment::<impl compiler::parser::Parser>::assignment") or need(F, "compiler::parser::Parser::assignment")
    mod = set()
    for c in pa.calls():
        if not c.matches("core::option::Option::unwrap_or") or pa.locals[c.dst["l"]].strip() != "bool":
            continue
        l = op_local(c.args[0])
        for m in (rules.origin_calls(pa, l, transparent=set()) if l is not None else []):
            if m.matches("core::option::Option::map") and len(m.args) > 1:
                cd = rules.closure_def_of_arg(pa, m.args[1])
                g = F.fn(cd) if cd else None
                if g is not None and g.calls_to("compiler::ast::assignment::AssignmentFlag::modify"):
                    mod.add(c.dst["l"])
    if not mod:
        # other spelling of the same thing (`flags.is_some_and(AssignmentFlag::is_modify)`): the flag is whatever Parser::assignment hands to the
        # declaration parsers as their `is_modify` parameter
        for c in pa.calls():
            g = F.fn(c.callee())
            if g is None or not re.search(r"::assignment_(no_type|type|unpack)$", g.path):
                continue
            names = getattr(g, "names", None) or {}
            idx = [i for i, nme in names.items() if nme == "is_modify" and 1 <= i <= g.argc]
            for i in idx:
                l = op_local(c.args[i - 1]) if i - 1 < len(c.args) else None
                for _ in range(4):
                    if l is None:
                        break
                    mod.add(l)
                    ds = [d for d in rules.defs_of(pa, l) if d[0] == "assign" and "use" in d[4]]
                    l = op_local(ds[0][4]["use"]) if len(ds) == 1 else None
    if not mod:
        raise AnchorMissing("the `modify` flag of Parser::assignment")

    def reads_constness(g, depth=2):
        if g is None:
            return False
        if g.calls_to(IS_CONST):
            return True
        if depth == 0:
            return False
        for cl in F.closures_of(g):
            if cl.calls_to(IS_CONST):
                return True
        return any(reads_constness(F.fn(c.callee()), depth - 1) for c in g.calls() if c.callee().startswith("compiler::"))
    pcalls = [c for c in pa.calls() if c.callee().startswith("compiler::ast::assignment::Assignment::") and reads_constness(F.fn(c.callee()))]
    removed = set()
    for bb, t_t, f_t, pol in rules.bool_switches(pa, pa.derived(mod)):
        if pol is not None:
            removed.add((bb, t_t if pol else f_t))
    plain = pa.reachable(0, removed_edges=removed)
    live = [c for c in pcalls if c.bb in plain]
    rep.ob(rule, "a plain (non-`modify`) declaration tests its own constness against a name the function already has", "ok" if live else "violated",
           "" if live else ("%d constness-reading call(s) on the new Assignment, none reachable unless the statement is a `modify`: `x = 1` / `const x = 10` freezes the "
                            "existing variable in place and earlier closures keep writing it" % len(pcalls)), pa.span, fn=pa.path, key=rule + "|const-over-existing")
    oks = set(rules.ok_return_blocks(pa))
    passes = lambda call, idx: call.matches((rules.TRY_BRANCH, "compiler::ast::map_err", "compiler::VecErr::to_err_vec", "core::result::Result::map_err"))
    for i, c in enumerate(live):
        der = pa.derived([c.dst["l"]], through_call=passes)
        sws = [x for x in rules.bool_switches(pa, der) if x[3] is not None]
        bad = []
        for bb, t_t, f_t, pol in sws:
            failing = f_t if pol else t_t
            if oks & pa.reachable(failing):
                bad.append(bb)
        rep.ob(rule, "the declaration is refused when that test fails", "violated" if (bad or not sws) else "ok",
               ("no branch on the result" if not sws else ("a successful return is reachable from the failing edge of bb%s" % bad if bad else "")), c.span, fn=pa.path,
               key="%s|const-over-existing|refused#%d" % (rule, i))



def existence_is_asked_function_wide(F, rep, rule="C10.guard"):
    """At run time `store` writes the variable of that name wherever it lives between the current block and the function's own frame
    (Stack::register_variable_flags walks the block frames): a name is one variable per function.  The compiler's "does this name exist
    already?" - on which the type-compatibility and the const test of a declaration hang - therefore has to look at the whole function
    (has_name_been_mapped_in_function; for `modify`, the capture lookup), not at the innermost block.  Per declaration parser: the
    previous-binding value it hands to Parser::assignment derives from those lookups only."""
    WIDE = ("compiler::parser::AssocFileData::has_name_been_mapped_in_function", "compiler::parser::AssocFileData::get_dependency_flags_from_name")
    thr = rules.TRANSPARENT | {rules.TRY_BRANCH, "core::option::Option::map", "core::option::Option::cloned", "core::option::Option::copied",
                               "alloc::borrow::ToOwned::to_owned", "core::clone::Clone::clone", "core::option::Option::or", "core::option::Option::or_else"}
    n = 0
    for sub in ("assignment_no_type", "assignment_type"):
        g = need(F, "compiler::parser::Parser::" + sub)
        for b in rules.ok_return_blocks(g):
            # Ok((assignment, previous)): the tuple's second component
            for bi, si, dst, rv, st in g.assigns():
                if bi != b or not ("agg" in rv and rv["agg"].get("v") == "Ok"):
                    continue
                tl = op_local(rv["ops"][0])
                for d in (rules.defs_of(g, tl) if tl is not None else []):
                    if d[0] == "assign" and "agg" in d[4] and d[4]["agg"]["k"] == "tuple" and len(d[4]["ops"]) == 2:
                        pl = op_local(d[4]["ops"][1])
                        oc = rules.origin_calls(g, pl, transparent=thr) if pl is not None else []
                        n += 1
                        narrow = [x for x in oc if not x.matches(WIDE)]
                        okk = bool(oc) and not narrow
                        rep.ob(rule, "%s: whether the declared name exists already is asked of the whole function" % sub, "ok" if okk else "violated",
                               "" if okk else ("the previous binding comes from %s: a typed declaration inside a block is not checked against the variable of the "
                                               "enclosing block it overwrites (`total: int = 10` / `if c { total: str = \"many\" }`)"
                                               % (sorted({mir.short(mir.strip_generics(x.callee())) for x in narrow}) or "no lookup")),
                               st.get("sp"), fn=g.path, key="%s|lookup-extent|%s" % (rule, sub))
    rep.floor(rule + " previous-binding results of the declaration parsers", n, 2)
    # the counter of `from a to b, NAME`: whether NAME exists already decides between writing the variable in place (`store`: a closure that captured it
    # sees the loop's assignments) and a throw-away cell (`store_fast` + `delete_name_scoped`).  Same extent: a loop inside an if / while block whose
    # counter is a variable of the function body must find it.
    NARROW = ("compiler::parser::AssocFileData::get_ident_from_name_local", "compiler::parser::AssocFileData::has_name_been_mapped_local")
    nl = [g for g in F.crates["compiler"].fns if g.path.endswith("<impl compiler::parser::Parser>::number_loop")]
    if len(nl) != 1:
        raise AnchorMissing("Parser::number_loop")
    bodies = [nl[0]] + F.closures_of(nl[0])
    wide = [c for g in bodies for c in g.calls() if c.matches(WIDE)]
    narrow = [(g, c) for g in bodies for c in g.calls() if c.matches(NARROW)]
    rep.ob(rule, "number_loop: whether the counter's name exists already is asked of the whole function", "ok" if wide and not narrow else "violated",
           "" if wide and not narrow else ("the lookup is %s: the counter of a loop that stands in an if / while / from block is taken for a new name although the function has "
                                           "the variable - it gets a throw-away cell, a closure that captured the variable sees none of the loop's assignments, and the "
                                           "variable reverts after the loop" % (sorted({mir.short(c.callee()) for _, c in narrow}) or "missing")),
           (narrow[0][1].span if narrow else nl[0].span), fn=nl[0].path, key="%s|lookup-extent|number_loop" % rule)



STORING = ("bin_op_assign", "unwrap_into")    # the instructions that write the left operand of an operator expression


def storing_operators_take_the_const_test(F, rep, rule="C10.guard"):
    """The const test of an operator expression (`x op= v`, `x ?= v`) sits in Expr::for_type under a condition on the operator
    (`op.is_op_assign() || matches!(op, Op::Unwrap)`).  Which operators *store* is decided somewhere else - by the arms of compile_depth that
    lay down bin_op_assign / unwrap_into.  The two have to agree: an operator added to the storing arm (a new `<<=`) that the condition does not
    know writes through a const root unchecked.  Decided by evaluation: the generator is run once per Op variant (the instruction words of every
    path), and every Op predicate that Expr::for_type consults on the way to Expr::root_ident is run on the same variant."""
    import seqgen
    from absint import Variant, Opaque, Interp, Int
    from props import C05 as _c05
    EXPR = "compiler::ast::math_expr::Expr"
    OP = "compiler::ast::math_expr::Op"
    ea, oa = F.adt(EXPR), F.adt(OP)
    cd = F.fn("compiler::ast::math_expr::compile_depth")
    ft = F.fn("compiler::ast::math_expr::Expr::for_type")
    if ea is None or oa is None or cd is None or ft is None:
        raise AnchorMissing("Expr / Op / compile_depth / for_type")
    en = [v["name"] for v in ea["variants"]]
    on = [v["name"] for v in oa["variants"]]
    ri = ft.calls_to("compiler::ast::math_expr::Expr::root_ident")
    if not ri:
        raise AnchorMissing("Expr::root_ident call in Expr::for_type")
    # the predicates: calls of Op methods on the operator whose answer decides whether root_ident is reached
    conds, cder = rules.storing_operator_conditions(F, ft)
    preds = []
    for c in conds:
        nm = mir.strip_generics(c.callee())
        der = ft.derived([c.dst["l"]], through_call=rules._opt_truth)
        for bb, t_t, f_t, pol in rules.bool_switches(ft, der):
            if pol is None:
                continue
            yes = t_t if pol else f_t
            if any(r.bb in ft.reachable(yes) for r in ri) and nm not in [x[0] for x in preds]:
                preds.append((nm, F.fn(nm)))
    # discriminant tests of the operator on the way to root_ident (matches!(op, Op::Unwrap))
    named = set()
    for bi, blk in enumerate(ft.blocks):
        t = blk["t"]
        if t["k"] != "switch":
            continue
        dl = op_local(t["discr"])
        src = [rv for b2, s2, dst, rv, s_ in ft.assigns() if dst["l"] == dl and "discr" in rv] if dl is not None else []
        if not src:
            continue
        pl = src[0]["discr"]
        ty = ft.locals[pl["l"]] if isinstance(pl, dict) and "l" in pl else ""
        if "math_expr::Op" not in ty:
            continue
        for v, tgt in t["targets"]:
            if int(v) < len(on) and tgt != t["otherwise"] and any(r.bb in ft.reachable(tgt) for r in ri) \
                    and not any(r.bb in ft.reachable(t["otherwise"]) for r in ri):
                named.add(on[int(v)])
    n = 0
    for op in on:
        node = Variant(EXPR, en.index("BinOp"), "BinOp", [Opaque("lhs"), Variant(OP, on.index(op), op, []), Opaque("rhs")])
        rows, ex = seqgen.sequences(F, cd, [node, Opaque("state"), Opaque("depth")], extra_models=_c05.OPAQUE_TYPING)
        seqs = [r["seq"] for r in rows if r["seq"] is not None]
        key = "%s|storing-operator|%s" % (rule, op)
        if ex or not seqs:
            rep.ob(rule, "`a %s b`: whether its code stores" % op, "undecided", "no sequence read (exhausted=%s)" % ex, cd.span, fn=cd.path, key=key)
            continue
        stores = sorted({x[1] for sq in seqs for x in sq if x[0] == "ins" and x[1] in STORING})
        if not stores:
            continue
        n += 1
        truth = {}
        for nm, pf in preds:
            if pf is None:
                truth[nm] = None
                continue
            truth[nm] = rules.op_predicate_value(F, nm, op)
        guarded = op in named or any(v is True for v in truth.values())
        unknown = not guarded and any(v is None for v in truth.values())
        rep.ob(rule, "`a %s b` stores into its left operand (%s): Expr::for_type takes the const test of the root for this operator" % (op, ", ".join(stores)),
               "undecided" if unknown else ("ok" if guarded else "violated"),
               "conditions on the operator in front of root_ident: %s; operators named by a match: %s" % (
                   {mir.short(k): v for k, v in truth.items()}, sorted(named)) +
               ("" if guarded else " -- none of them holds for Op::%s: `c.x %s v`, `c[0] %s v` and `module.member %s v` are accepted for a const root"
                % (op, op, op, op)), ft.span, fn=ft.path, key=key)
    rep.floor(rule + " storing operators judged", n, 6)    # += -= *= /= %= ?=


def _module_predicates(F):
    """Local predicates `fn(&TypeLayout) -> bool` of crate compiler that answer "is this a module?": found by a discriminant test against
    TypeLayout::Module in their body, then *evaluated* (abstract interpreter) on a module type as it is and as the type checker wraps it for a
    captured variable and for an alias.  {path: (ok, detail)}: ok iff it says yes to all three and no to int."""
    from props import _hashkeys
    import tables
    from absint import Variant, Opaque
    TLp = "compiler::ast::r#type::TypeLayout"
    tl = F.adt(TLp)
    tln = [v["name"] for v in tl["variants"]]
    mod_i = str(tln.index("Module"))
    T = tables.Tables(F)
    mod = Variant(TLp, tln.index("Module"), "Module", [Opaque("m")])
    samples = (("module", mod, True), ("captured(module)", Variant(TLp, tln.index("CallbackVariable"), "CallbackVariable", [mod]), True),
               ("alias(module)", Variant(TLp, tln.index("Alias"), "Alias", [Opaque("name"), mod]), True), ("int", T.tl_value("Int", "i"), False))
    out = {}
    for f in F.crates["compiler"].fns:
        if f.kind == "Closure" or f.argc != 1 or f.locals[0].strip() != "bool" or "TypeLayout" not in f.locals[1]:
            continue
        tests = False
        for blk in f.blocks:
            t = blk["t"]
            if t["k"] == "switch" and mod_i in dict(t["targets"]):
                for s_ in blk["s"]:
                    if "d" in s_ and "discr" in s_["rv"] and "TypeLayout" in f.locals[s_["rv"]["discr"]["l"]]:
                        tests = True
        if not tests:
            continue
        bad = []
        for label, v, want in samples:
            got = _hashkeys.eval_pred(F, f, v)
            if got is None:
                bad.append("%s: not evaluated" % label)
            elif got != want:
                bad.append("%s: %s" % (label, "yes" if got else "no"))
        out[f.path] = (not bad, "; ".join(bad))
    return out


def _helper_module_test(F, g, region, receiver_ok, edge_ok, flag_names=None):
    """A call, inside `region` of g, of a module predicate whose receiver satisfies receiver_ok and whose true edge satisfies edge_ok.
    Returns None (no such call), or (ok, detail)."""
    preds = _module_predicates(F)
    res = None
    for c in g.calls():
        cal = c.callee() or ""
        hit = [p for p in preds if c.matches(p)]
        if not hit or (region is not None and c.bb not in region) or not c.args or c.dst is None:
            continue
        l = op_local(c.args[0])
        if l is None or not receiver_ok(l):
            continue
        der = g.derived([c.dst["l"]])
        # `flag = flag || ty.is_module()`: the answer itself becomes (part of) the flag
        direct = flag_names is not None and any(g.names.get(l_) in flag_names for l_ in der)
        sw = list(rules.bool_switches(g, der))
        for bb, t_t, f_t, pol in (sw or ([(None, None, None, None)] if direct else [])):
            yes = t_t if pol is not False else f_t
            if direct or edge_ok(yes):
                ok, detail = preds[hit[0]]
                res = (ok, "" if ok else "%s answers %s: inside a function that captured an alias of the module the alias is typed captured(module), the test says "
                                         "`not a module` and the write through it is accepted" % (mir.short(hit[0]), detail))
    return res


def modify_target_is_not_const(F, rep, rule="C10.guard"):
    """`modify x = v` is compiled to store_object, which writes the variable the running function *captured* - the declaration found beyond the
    function boundary - not the nearest declaration of that name (a local of the same name, a loop counter, a declaration in the same block
    may sit in between).  The const test of `modify` therefore has to read the identifier that very lookup returned
    (get_dependency_flags_from_name_skip_n in Assignment::can_modify_if_applicable): every successful answer after the lookup is dominated by
    Ident::is_const on it and derives from that call (or is guarded by it)."""
    f = need(F, "compiler::ast::assignment::Assignment::can_modify_if_applicable")
    key = rule + "|modify-target-const"
    label = "`modify x = v`: the const test reads the captured declaration the statement writes, not the nearest one of that name"
    looks = f.calls_to("compiler::parser::AssocFileData::get_dependency_flags_from_name_skip_n")
    if not looks:
        rep.ob(rule, label, "undecided", "the lookup in can_modify_if_applicable is no longer get_dependency_flags_from_name_skip_n", f.span, fn=f.path, key=key)
        return
    thr = rules.TRANSPARENT | {rules.TRY_BRANCH, "anyhow::Context::context", "anyhow::Context::with_context"}
    tests = []
    for c in f.calls_to(IS_CONST):
        l = op_local(c.args[0]) if c.args else None
        oc = rules.origin_calls(f, l, transparent=thr) if l is not None else []
        if any(o in looks for o in oc) or any(o.bb in {x.bb for x in looks} for o in oc):
            tests.append(c)
    after = set()
    for c in looks:
        if c.target is not None:
            after |= f.reachable(c.target)
    oks = [b for b in rules.ok_return_blocks(f) if b in after]
    if not tests:
        rep.ob(rule, label, "violated", "no Ident::is_const on the identifier the capture lookup returned: with a local, a loop counter or a block declaration of the same "
               "name in between, `modify limit = 7` rewrites a captured `const limit`", looks[0].span, fn=f.path, key=key)
        return
    bad = [b for b in oks if not rules.call_dominates(f, tests, b)]
    # ... and the answer is that test's: the returned bool derives from it, or the Ok is guarded by it
    derived_ok = True
    if not bad:
        src = [c.dst["l"] for c in tests if c.dst]
        v, info = rules.guarded_by_bool(f, oks, src, want=False)
        if v != "ok":
            # `Ok(!ident.is_const())`: the payload itself is the (negated) test
            der = f.derived(src)
            pay_ok = True
            for b in oks:
                for bi, si, dst, rv, st in f.assigns():
                    if bi == b and "agg" in rv and rv["agg"].get("v") == "Ok":
                        pl = op_local(rv["ops"][0])
                        if pl is None or pl not in der:
                            pay_ok = False
            derived_ok = pay_ok
    st = "violated" if (bad or not derived_ok) else "ok"
    rep.ob(rule, label, st, "" if st == "ok" else "a successful answer for a `modify` does not depend on Ident::is_const of the captured identifier (%d of %d Ok returns)"
           % (len(bad) or len(oks), len(oks)), tests[0].span, fn=f.path, key=key)
