"""Shared rule instances about variable cells (Gc<GcCell<TupleWithGcOpt>>), used by C07 and C08."""
import mir
import rules
from mir import op_local, op_const, op_place
from core import AnchorMissing

CELL_TY = "gc::GcCell<bytecode::stack::TupleWithGcOpt>"
PFP = "bytecode::stack::PrimitiveFlagsPair"
GC_CLONE_PREFIX = "<gc::Gc<T> as core::clone::Clone>"

PASS = {"core::ops::deref::Deref::deref", "core::ops::deref::DerefMut::deref_mut", "core::clone::Clone::clone",
        "core::option::Option::cloned", "core::option::Option::as_ref", "core::option::Option::expect", "core::option::Option::unwrap",
        "core::result::Result::unwrap", "core::result::Result::expect",
        "core::cell::RefCell::borrow", "core::cell::Ref::map", rules.TRY_BRANCH, "core::convert::Into::into", "core::convert::From::from",
        "anyhow::Context::context", "anyhow::Context::with_context", "core::option::Option::ok_or", "core::option::Option::context",
        "std::sync::poison::mutex::Mutex::lock", "std::sync::Mutex::lock"}


def need(F, path):
    f = F.fn(path)
    if f is None:
        raise AnchorMissing(path)
    return f


def agg_sites(fn, adt=None, variant=None, kind="adt"):
    out = []
    for bi, si, dst, rv, s in fn.assigns():
        if "agg" in rv and rv["agg"]["k"] == kind and (adt is None or rv["agg"].get("adt") == adt) and \
                (variant is None or rv["agg"].get("v") == variant):
            out.append((bi, si, dst, rv, s))
    return out


def ga0(call):
    return (call.t["func"].get("ga") or [None])[0]


def origin_ok(rep, rule, desc, fn, local, expect, transparent=PASS, where=None, extra_ok=None):
    """Obligation: every origin of `local` (looking through `transparent`) is a call
    matching one of `expect`; at least one origin exists."""
    by_bb = {c.bb: c for c in fn.calls()}
    o = rules.origins(fn, local, transparent=transparent) if local is not None else {("const",)}
    calls = [by_bb[x[1]] for x in o if x[0] == "call"]
    others = [x for x in o if x[0] != "call"]
    good = bool(calls) and all(c.matches(tuple(expect)) for c in calls) and not others
    if not good and extra_ok is not None:
        good = extra_ok(o, calls, others)
    desc_o = [mir.short(c.callee()) for c in calls] + [("param %s" % fn.local_name(x[1]) if x[0] == "arg" else str(x)) for x in others]
    rep.ob(rule, desc, "ok" if good else "violated", "value derives from %s (allowed sources: %s)" % (sorted(desc_o), [mir.short(e) for e in expect]),
           where or fn.span, fn=fn.path)
    return good


def clone_is_pointer_copy(rep, rule, F):
    """PrimitiveFlagsPair::clone copies the Gc pointer (cells are shared, not copied)."""
    cands = [f for f in F.find("core::clone::Clone::clone") if f.d.get("impl_self") == PFP]
    if len(cands) != 1:
        raise AnchorMissing("impl Clone for PrimitiveFlagsPair")
    f = cands[0]
    cl = [c for c in f.calls() if c.matches("core::clone::Clone::clone")]
    ok = len(cl) == 1 and cl[0].res and mir.strip_generics(cl[0].res).startswith(GC_CLONE_PREFIX) and len(f.calls()) == 1
    rep.ob(rule, "PrimitiveFlagsPair::clone is a Gc pointer copy", "ok" if ok else "violated",
           "calls: %s" % [c.res for c in f.calls()], f.span, fn=f.path)


def cell_creation(rep, rule, F, allowed_creators, allowed_new_callers):
    """Who may create a variable cell."""
    creators = []
    for f in F.crates["bytecode"].fns:
        for c in f.calls():
            if c.matches("gc::Gc::new") and ga0(c) == CELL_TY:
                creators.append((f, c))
    rep.floor(rule + " creation sites", len(creators), 2)
    for f, c in creators:
        ok = f.path in allowed_creators
        rep.ob(rule, "cell created in %s" % mir.short(f.path), "ok" if ok else "violated",
               "Gc<GcCell<TupleWithGcOpt>>::new outside the declaration sites (allowed: %s)" % [mir.short(a) for a in allowed_creators],
               c.span, fn=f.path, key="%s|%s|cell-created" % (rule, mir.short(f.path)))
    callers = F.callers_of("bytecode::stack::PrimitiveFlagsPair::new")
    rep.floor(rule + " PrimitiveFlagsPair::new callers", len(callers), 2)
    for f, c in callers:
        ok = f.path in allowed_new_callers
        rep.ob(rule, "PrimitiveFlagsPair::new called from %s" % mir.short(f.path), "ok" if ok else "violated",
               "a fresh cell is created outside a declaration site: a captured/stored variable would be re-wrapped instead of aliased",
               c.span, fn=f.path, key="%s|%s|new-called" % (rule, mir.short(f.path)))
    # the fn-item must not escape as a value either
    refs = F.fn_item_refs("bytecode::stack::PrimitiveFlagsPair::new")
    for f, bb, p in refs:
        rep.ob(rule, "PrimitiveFlagsPair::new used as a value in %s" % mir.short(f.path), "undecided",
               "function item escapes; callers through the pointer are not tracked", f.span, fn=f.path)


def variant_edge(fn, sw_bb, idx):
    t = fn.term(sw_bb)
    d = dict(t["targets"])
    return d.get(str(idx), t["otherwise"])


def returned_payloads(fn):
    """Locals carrying the success payload of the return value: the operand of
    `_0 = Ok(x)` / `_0 = Some(x)`, or _0 itself when it is not built that way."""
    locs = []
    for bi, si, dst, rv, s in fn.assigns():
        if dst["l"] == 0 and not dst.get("p") and "agg" in rv and rv["agg"].get("v") in ("Some", "Ok") and rv["ops"]:
            if op_local(rv["ops"][0]) is not None:
                locs.append(op_local(rv["ops"][0]))
    return locs or [0]
