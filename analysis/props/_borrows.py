"""C16 — RefCell borrow discipline on the compiler's scope stack (no `already borrowed` panic).

`AssocFileData::scopes` is a RefCell<Vec<Scope>>.  Several accessors hand out a `Ref` guard into it (get_type_of_executing_class,
return_statement_expected_yield_type, get_ident_from_name_local, ..); pushing / popping a scope, registering a variable etc. take
`borrow_mut()`.  A guard that is still alive when such a function runs makes the compiler panic (BorrowMutError) on a valid program.

Rule (a typestate / lock-discipline analysis over MIR, flow-sensitive, type-resolved):
  * guards   = owning locals whose type mentions core::cell::Ref / RefMut, born at a call that (transitively) borrows the cell, or that is
               handed a live guard; they die when moved out or dropped (explicit drop terminators; a value moved into a call is the callee's);
  * mutators = functions from which RefCell<Vec<Scope>>::borrow_mut (replace, swap, take) is reachable in the call graph;
  * no mutator is called while a guard of that cell may be alive.
Guards are associated with a cell by the type of the RefCell their producer borrows, not by instance.
"""
import re
from collections import defaultdict, deque
import mir
from mir import op_local

GUARD = re.compile(r"core::cell::(Ref|RefMut)<|gc::GcCell(Ref|RefMut)<")
CELL_PREFIXES = ("core::cell::RefCell", "gc::GcCell")
MUT_METHODS = ("borrow_mut", "replace", "swap", "take", "replace_with", "try_borrow_mut")
SH_METHODS = ("borrow", "try_borrow")


def owns_guard(ty):
    t = ty.strip()
    if t.startswith("&") or t.startswith("*"):
        return False
    return bool(GUARD.search(t))


def top(p):
    return re.sub(r"::\{closure#\d+\}", "", p)


class Cells:
    def __init__(self, F, crate="compiler"):
        self.F = F
        self.fns = list(F.crates[crate].fns)
        self.direct_mut = defaultdict(set)
        self.direct_sh = defaultdict(set)
        for f in self.fns:
            for c in f.calls():
                d = c.t["func"].get("def") or ""
                if not d.startswith(CELL_PREFIXES):
                    continue
                m = d.split("::")[-1]
                ga = " ".join(c.t["func"].get("ga") or [])
                if m in MUT_METHODS:
                    self.direct_mut[f.path].add(ga)
                elif m in SH_METHODS:
                    self.direct_sh[f.path].add(ga)
        g = F.call_graph()
        self.rev = defaultdict(set)
        for a, bs in g.items():
            for b in bs:
                self.rev[b].add(a)

    def closure(self, seed):
        seen = set(seed)
        dq = deque(seed)
        while dq:
            x = dq.popleft()
            for y in self.rev.get(x, ()):
                if y not in seen:
                    seen.add(y)
                    dq.append(y)
        return seen

    def reaching(self, table, cell):
        return self.closure({p for p, v in table.items() if cell in v})


def moved_locals(ops):
    out = set()
    for o in ops:
        if isinstance(o, dict) and "move" in o:
            out.add(o["move"].get("l"))
    return out


def analyse(F, cell, crate="compiler"):
    """[(fn, guard local, producer call, mutator call)] for every mutator call made while a guard of `cell` may be alive"""
    C = Cells(F, crate)
    MUT = C.reaching(C.direct_mut, cell)
    SH = C.reaching(C.direct_sh, cell)
    hits = []
    nguards = 0
    nfns = 0
    for f in C.fns:
        own = {l for l, ty in enumerate(f.locals) if owns_guard(ty)}
        if not own:
            continue
        nfns += 1
        nb = len(f.blocks)
        # forward may-analysis: state[b] = dict local -> producer call (at block entry)
        state = [None] * nb
        state[0] = {}
        work = deque([0])
        calls_by_bb = {c.bb: c for c in f.calls()}
        seen_hits = set()
        while work:
            b = work.popleft()
            cur = dict(state[b])
            blk = f.blocks[b]
            for s in blk["s"]:
                if "d" not in s:
                    continue
                ops = mir.rvalue_operands(s["rv"])
                mv = moved_locals(ops) & set(cur)
                src = None
                for l in mv:
                    src = cur.pop(l)
                d = s["d"]
                if not d.get("p") and d["l"] in own and src is not None:
                    cur[d["l"]] = src
                elif d.get("p") and src is not None and d["l"] in own:
                    cur[d["l"]] = src
            t = blk["t"]
            succs = f.succs(b)
            if t["k"] == "drop":
                pl = t["place"]
                if not pl.get("p"):
                    cur.pop(pl["l"], None)
            elif t["k"] == "call":
                c = calls_by_bb.get(b)
                mv = moved_locals(t["args"]) & set(cur)
                src = None
                for l in mv:
                    src = cur.pop(l)
                cal = c.callee() if c is not None else ""
                direct = None      # a direct RefCell::borrow / borrow_mut of this cell
                if c is not None:
                    dd = c.t["func"].get("def") or ""
                    if dd.startswith(CELL_PREFIXES) and cell == " ".join(c.t["func"].get("ga") or []):
                        m_ = dd.split("::")[-1]
                        direct = "mut" if m_ in MUT_METHODS else ("sh" if m_ in SH_METHODS else None)
                is_mut = c is not None and (cal in MUT or top(cal) in MUT or direct == "mut")
                is_sh = c is not None and (cal in SH or top(cal) in SH or direct == "sh")
                if c is not None and cur and (is_mut or is_sh) and not blk.get("cleanup"):
                    for l, prod in cur.items():
                        exclusive = "RefMut<" in f.locals[l] or "GcCellRefMut<" in f.locals[l]
                        if not (is_mut or exclusive):
                            continue           # shared guard + shared borrow: fine
                        key = (l, prod.bb, b)
                        if key not in seen_hits:
                            seen_hits.add(key)
                            hits.append((f, l, prod, c))
                # the call's result: a guard if its type owns one and (the callee borrows the cell, or it was handed a live guard)
                dst = t.get("dst")
                if dst is not None and not dst.get("p") and dst["l"] in own and c is not None:
                    borrows_cell = cal in SH or top(cal) in SH or cal in MUT or top(cal) in MUT or direct is not None
                    if borrows_cell:
                        cur[dst["l"]] = c
                        nguards += 1
                    elif src is not None:
                        cur[dst["l"]] = src
                    else:
                        # handed a reference to a live guard (Option::as_ref, Ref::clone, ..): derived guard
                        refd = [l for l in cur if any(op_local(a) is not None for a in t["args"])]
                        borrowed_from = None
                        for a in t["args"]:
                            al = op_local(a)
                            if al is None:
                                continue
                            for bb_, si, d2, rv2, _s in f.assigns():
                                if d2.get("l") == al and "ref" in rv2 and rv2["ref"].get("l") in cur:
                                    borrowed_from = cur[rv2["ref"]["l"]]
                        if borrowed_from is not None:
                            cur[dst["l"]] = borrowed_from
                        else:
                            cur.pop(dst["l"], None)
                elif dst is not None and not dst.get("p"):
                    cur.pop(dst["l"], None)
            # `if let Some(g) = opt` / `match opt`: on the None edge of a test of an Option that may hold a guard, it holds none
            none_edge = {}
            if t["k"] == "switch":
                dl = op_local(t["discr"])
                src_opt = None
                for s in blk["s"]:
                    if "d" in s and s["d"].get("l") == dl and "discr" in s["rv"] and not s["rv"]["discr"].get("p"):
                        src_opt = s["rv"]["discr"]["l"]
                if src_opt is not None and src_opt in cur and f.locals[src_opt].strip().startswith("core::option::Option<"):
                    vals = [v for v, _ in t["targets"]]
                    for v, tg in t["targets"]:
                        if v == "0":
                            none_edge[tg] = src_opt
                    if "0" not in vals and "1" in vals and t.get("otherwise") is not None:
                        none_edge[t["otherwise"]] = src_opt       # `if let Some(..)`: everything else is None
            for s2 in succs:
                if f.blocks[s2].get("cleanup"):
                    continue
                out = cur
                if s2 in none_edge:
                    out = {l: p_ for l, p_ in cur.items() if l != none_edge[s2]}
                old = state[s2]
                if old is None:
                    state[s2] = dict(out)
                    work.append(s2)
                else:
                    merged = dict(old)
                    changed = False
                    for l, p_ in out.items():
                        if l not in merged:
                            merged[l] = p_
                            changed = True
                    if changed:
                        state[s2] = merged
                        work.append(s2)
    return hits, {"functions_with_guards": nfns, "guards_born": nguards, "mutators": len(MUT), "borrowers": len(SH)}


def _recv_place(f, call):
    """the place a borrow's receiver reference points at: (local, projection) of `&place` feeding args[0], looking through reborrows"""
    if not call.args:
        return None
    l = op_local(call.args[0])
    for _ in range(10):
        if l is None:
            return None
        nxt = None
        for bb_, si, d, rv, _s in f.assigns():
            if d.get("l") == l and not d.get("p"):
                if "ref" in rv:
                    pl = rv["ref"]
                    proj = tuple((e[0], e[1] if len(e) > 1 else None) for e in pl.get("p", []))
                    if proj == (("deref", None),):
                        nxt = pl["l"]
                        break
                    return (pl["l"], proj)
                if "use" in rv and op_local(rv["use"]) is not None:
                    nxt = op_local(rv["use"])
                    break
        if nxt is None:
            for cc in f.calls():
                if cc.dst and cc.dst.get("l") == l and not cc.dst.get("p") and cc.callee().endswith("Deref>::deref") or (
                        cc.dst and cc.dst.get("l") == l and cc.callee().endswith("::deref")):
                    nxt = op_local(cc.args[0])
                    break
        if nxt is None:
            return None
        l = nxt
    return None


def distinct_by_ptr_test(f, prod, c):
    """True when the conflicting borrow `c` is only reachable across the `false` edge of `Gc::ptr_eq(<receiver of prod>, <receiver of c>)`:
    the code has established that the two cells are different objects."""
    import rules
    a, b = _recv_place(f, prod), _recv_place(f, c)
    if a is None or b is None:
        return False
    for t in f.calls():
        if not (t.callee().endswith("::ptr_eq") and len(t.args) == 2 and t.target is not None):
            continue
        pa = _recv_place_of_operand(f, t.args[0])
        pb = _recv_place_of_operand(f, t.args[1])
        if {pa, pb} != {a, b} or pa is None or pb is None:
            continue
        der = f.derived([t.dst["l"]])
        sws = [x for x in rules.bool_switches(f, der) if x[3] is not None]
        removed = {(bb, (f_t if pol else t_t)) for bb, t_t, f_t, pol in sws}     # remove the "not equal" edges: is c still reachable?
        if sws and c.bb not in f.reachable(0, removed_edges=removed):
            return True
    return False


def _recv_place_of_operand(f, op):
    class _C:
        pass
    x = _C()
    x.args = [op]
    return _recv_place(f, x)


FRESH = ("bytecode::variables::primitive::GcVector::with_capacity", "bytecode::variables::primitive::GcVector::new", "bytecode::variables::primitive::GcMap::new",
         "core::default::Default::default", "gc::Gc::new", "gc::GcCell::new")


def fresh_field(F, f, place, crate="bytecode"):
    """place = (self local, (deref, field k, ..)): True when field k of the struct behind `self` is, at every construction site of that struct,
    the result of an allocating constructor, and is never assigned afterwards -- the cell in it cannot be one the program already holds."""
    import rules
    if place is None:
        return False
    l, proj = place
    if len(proj) < 2 or proj[0][0] != "deref" or proj[1][0] != "field":
        return False
    k = proj[1][1]
    ty = f.locals[l].strip()
    while ty.startswith("&"):
        ty = ty[1:].strip()
        ty = re.sub(r"^'\w+\s+", "", ty)
        if ty.startswith("mut "):
            ty = ty[4:]
    adt = ty.split("<")[0]
    sites = 0
    for g in F.crates[crate].fns:
        for bi, si, d, rv, st in g.assigns():
            if "agg" in rv and rv["agg"].get("k") == "adt" and rv["agg"].get("adt") == adt:
                sites += 1
                ops = rv["ops"]
                if k >= len(ops) or op_local(ops[k]) is None:
                    return False
                oc = rules.origin_calls(g, op_local(ops[k]))
                if not oc or not all(c.matches(FRESH) for c in oc):
                    return False
            # a later write to that field
            if d.get("p") and any(e[0] == "field" and e[1] == k and len(e) > 3 for e in d["p"]) and adt in g.locals[d["l"]]:
                return False
    return sites > 0


EXEMPT = {}     # key -> reason; filled by the caller (one line of reason per exception)


def judge(F, cell, crate):
    """(violations, discharged, stats): a hit is discharged when the code has tested the two cells to be different objects, or when one of them
    sits in a field that only ever holds a freshly allocated cell."""
    hits, st = analyse(F, cell, crate)
    bad, ok = [], []
    for f, l, prod, c in hits:
        why = None
        if distinct_by_ptr_test(f, prod, c):
            why = "the two cells were tested to be different objects (ptr_eq) before the second borrow"
        else:
            a, b = _recv_place(f, prod), _recv_place(f, c)
            if a != b and (fresh_field(F, f, a, crate) or fresh_field(F, f, b, crate)):
                why = "one of the two cells is in a field that only ever holds a freshly allocated cell"
        (ok if why else bad).append((f, l, prod, c, why))
    return bad, ok, st
